#!/usr/bin/env python3
"""Independent parsers for the built-in reports (C14).

usage: parse_reports.py <cases.jsonl> <result.json>

Each input record holds the facts of one event stream (computed by the harness
straight from the events) and the bytes the four reporters wrote. Every report
is parsed back with a parser that shares no code with cucumber-rs (json,
xml.etree, and a line parser for the terminal format, which JUnit embeds in
<system-out>), projected onto the granularity the format has, and compared as
a multiset with the same projection of the facts.
"""
import collections
import json
import re
import sys
import xml.etree.ElementTree as ET

MARK = re.compile(r"^(\s*)([✔?✘])(>?)\s\s?(.*)$")
HOOK = re.compile(r"^Scenario's (Before|After) hook failed (.*)$")
RETRY = re.compile(r"^(.*) \| Retry attempt: (\d+)/(\d+)$")

ERR_TEXT = {
    "undefined": "Step doesn't match any function",
    "ambiguous": "Step match is ambiguous",
}


def ms(items):
    return collections.Counter(items)


def diff(got, want, limit=4):
    g, w = ms(got), ms(want)
    extra = list((g - w).elements())[:limit]
    missing = list((w - g).elements())[:limit]
    return extra, missing


# --------------------------------------------------------------------- terminal

def parse_terminal(text, with_features=True):
    """-> (list of facts, list of parse errors). A fact is a dict."""
    facts, perrs = [], []
    feature = rule = scenario = None
    attempt = 0
    last = None
    for raw in text.split("\n"):
        if not raw.strip():
            continue
        stripped = raw.lstrip(" ")
        indent = len(raw) - len(stripped)
        m = MARK.match(raw)
        if m:
            sym, bg, rest = m.group(2), m.group(3) == ">", m.group(4)
            h = HOOK.match(rest)
            if h and sym == "✘" and not bg:
                last = {"feature": feature, "rule": rule, "scenario": scenario, "attempt": attempt,
                        "kind": "hook", "hook": h.group(1), "status": "failed", "where": h.group(2), "msg": ""}
            else:
                last = {"feature": feature, "rule": rule, "scenario": scenario, "attempt": attempt,
                        "kind": "bg" if bg else "step", "text": rest,
                        "status": {"✔": "passed", "?": "skipped", "✘": "failed"}[sym], "msg": ""}
            facts.append(last)
            continue
        if with_features and indent == 0 and stripped.startswith("Failed to parse: "):
            perrs.append(stripped[len("Failed to parse: "):])
            last = None
            continue
        if with_features and indent == 0 and stripped.startswith("Feature: "):
            feature, rule, scenario = stripped[len("Feature: "):], None, None
            last = None
            continue
        if with_features and indent == 0 and stripped.startswith("Rule: "):
            rule, scenario = stripped[len("Rule: "):], None
            last = None
            continue
        if stripped.startswith("Scenario: ") and not _continues(last, indent):
            name = stripped[len("Scenario: "):]
            r = RETRY.match(name)
            if r:
                name, attempt = r.group(1), int(r.group(2))
            else:
                attempt = 0
            if with_features and indent == 2:
                rule = None
            scenario = name
            last = None
            continue
        if last is not None:
            last["msg"] += stripped + "\n"
    return facts, perrs


def _continues(last, indent):
    """A non-marker line deeper than a scenario header belongs to the message
    of the previous fact (error text, docstrings); headers sit at indent <= 4."""
    return last is not None and indent > 4


def term_tuple(f):
    if f["kind"] == "hook":
        return ("hook", f["feature"], f["rule"], f["scenario"], f["attempt"], f["hook"], "failed")
    return (f["kind"], f["feature"], f["rule"], f["scenario"], f["attempt"], f["text"], f["status"])


def expected_term_tuple(x, with_features=True):
    feat = x["feature"] if with_features else None
    rule = x["rule"] if with_features else None
    if x["kind"] == "hook":
        return ("hook", feat, rule, x["scenario"], x["attempt"], x["hook"], "failed")
    status = x["status"] if x["status"] in ("passed", "skipped") else "failed"
    return (x["kind"], feat, rule, x["scenario"], x["attempt"], x["keyword"] + x["text"], status)


def check_messages(parsed, facts, out, reporter):
    """Every failed fact's message must occur in the message of a parsed failed entry of the same identity."""
    by = collections.defaultdict(list)
    for p in parsed:
        by[term_tuple(p)].append(p["msg"] + " " + p.get("where", ""))
    for x in facts:
        if x["kind"] == "parse-error" or x["status"] in ("passed", "skipped"):
            continue
        key = expected_term_tuple(x, with_features=(reporter == "terminal"))
        if reporter != "terminal":
            key = (key[0], None, None) + key[3:]
        needle = x.get("message") or ERR_TEXT.get(x["status"], "")
        msgs = by.get(key, [])
        if msgs and not any(needle in m for m in msgs):
            out.append(("message-lost", f"{reporter}: failure message {needle!r} of {key} not in the report"))


def check_terminal(rec, out):
    parsed, perrs = parse_terminal(rec["basic"])
    facts = rec["facts"]
    want = [expected_term_tuple(x) for x in facts if x["kind"] != "parse-error"]
    got = [term_tuple(p) for p in parsed]
    extra, missing = diff(got, want)
    if extra or missing:
        out.append(("terminal-facts", f"terminal: not in the stream {extra}; missing from the report {missing}"))
    want_err = [x["message"] for x in facts if x["kind"] == "parse-error"]
    if len(perrs) != len(want_err) or any(w not in p for w, p in zip(want_err, perrs)):
        out.append(("terminal-parse-errors", f"terminal: parse errors {perrs}, stream has {want_err}"))
    check_messages(parsed, facts, out, "terminal")


# ---------------------------------------------------------------------- libtest

def feature_part(x, counter_re=False):
    path = x["path"]
    if path is None:
        return None  # a per-call counter stands in for the path
    return f'{x["feature_keyword"]}: {x["feature"]} {rust_escape_default(path)}'


def rust_escape_default(s):
    out = []
    for ch in s:
        o = ord(ch)
        if ch == "\t":
            out.append("\\t")
        elif ch == "\r":
            out.append("\\r")
        elif ch == "\n":
            out.append("\\n")
        elif ch in "'\"\\":
            out.append("\\" + ch)
        elif 0x20 <= o <= 0x7E:
            out.append(ch)
        else:
            out.append("\\u{%x}" % o)
    return "".join(out)


def libtest_expected_name(x, feature_seg):
    segs = [feature_seg]
    if x["rule"] is not None:
        segs.append(f'{x["rule_line"]}: {x["rule_keyword"]}: {x["rule"]}')
    sc = f'{x["scenario_line"]}: {x["scenario_keyword"]}: {x["scenario"]}'
    if x["attempt"] > 0:
        sc += f' | Retry attempt {x["attempt"]}/{x["attempts_total"]}'
    segs.append(sc)
    if x["kind"] == "hook":
        segs.append(f'{x["hook"]} hook')
    else:
        segs.append(f'{x["line"]}: {"Background" if x["kind"] == "bg" else ""} {x["keyword"]}{x["text"]}')
    return "::".join(segs)


PATHLESS = re.compile(r"^(.*?: .*) (\d+)$")


def normalize_pathless(name, pathless_feature_prefixes):
    """Replaces the per-call counter of a path-less feature segment by '#'."""
    seg, sep, rest = name.partition("::")
    m = PATHLESS.match(seg)
    if m and m.group(1) in pathless_feature_prefixes:
        return m.group(1) + " #" + sep + rest, True
    return name, False


def check_libtest(rec, out):
    facts = rec["facts"]
    lines = [l for l in rec["libtest"].split("\n") if l.strip()]
    try:
        objs = [json.loads(l) for l in lines]
    except ValueError as e:
        out.append(("libtest-malformed", f"libtest: a line is not JSON: {e}"))
        return
    pathless = {f'{x["feature_keyword"]}: {x["feature"]}' for x in facts
                if x["kind"] != "parse-error" and x["path"] is None}
    started, results = [], []
    suite_start = suite_end = None
    for o in objs:
        if o.get("type") == "suite":
            if o.get("event") == "started":
                suite_start = o
            else:
                suite_end = o
        elif o.get("type") == "test":
            if o.get("event") == "started":
                started.append(o["name"])
            else:
                results.append((o["name"], o["event"], o.get("stdout", "")))
    if suite_start is None or suite_end is None:
        out.append(("libtest-suite-lines", "libtest: suite started/finished line missing"))
        return
    # every started has exactly one result with the same name: names identify the entries
    dup = [n for n, k in ms(started).items() if k > 1]
    if dup:
        out.append(("libtest-name-collision", f"libtest: {len(dup)} test names are used by more than one started line, e.g. {dup[0]!r}"))
    sc, rc = ms(started), ms(n for n, _, _ in results)
    if sc != rc:
        # known: path-less features get a fresh counter on every call
        ns = ms(normalize_pathless(n, pathless)[0] for n in started)
        nr = ms(normalize_pathless(n, pathless)[0] for n, _, _ in results)
        touched = any(normalize_pathless(n, pathless)[1] for n in started)
        if ns == nr and touched:
            out.append(("libtest-started-result-names", "libtest: started/result names differ only by the per-call counter of a path-less feature",
                        "libtest-pathless-name-counter"))
        else:
            extra, missing = diff(list(rc.elements()), list(sc.elements()))
            out.append(("libtest-started-result-names", f"libtest: results without started {extra}; started without result {missing}"))
    # the suite's announced size is the stream's own announcement (ParsingFinished): the number
    # of steps it says were parsed plus the number of parser errors
    ann = rec.get("announced")
    if ann is not None and suite_start.get("test_count") != ann["steps"] + ann["parser_errors"]:
        out.append(("libtest-test-count", f'libtest: suite started with test_count {suite_start.get("test_count")}, '
                    f'the stream announced {ann["steps"]} steps and {ann["parser_errors"]} parser errors'))
    # facts
    want, perr_n = [], 0
    for x in facts:
        if x["kind"] == "parse-error":
            perr_n += 1
            want.append((f"Feature: Parsing {perr_n}", "failed"))
            continue
        fseg = feature_part(x)
        if fseg is None:
            fseg = f'{x["feature_keyword"]}: {x["feature"]} #'
        ev = {"passed": "ok", "skipped": "ignored"}.get(x["status"], "failed")
        want.append((libtest_expected_name(x, fseg), ev))
    got = [(normalize_pathless(n, pathless)[0], e) for n, e, _ in results]
    extra, missing = diff(got, want)
    if extra or missing:
        out.append(("libtest-facts", f"libtest: not in the stream {extra}; missing from the report {missing}"))
    # messages
    for x in facts:
        if x["kind"] == "parse-error":
            if not any(e == "failed" and x["message"] in so for _, e, so in results):
                out.append(("message-lost", f"libtest: parse error {x['message']!r} not reported"))
        elif x["status"] not in ("passed", "skipped"):
            needle = x.get("message") or ERR_TEXT.get(x["status"], "")
            if not any(e == "failed" and needle in so for _, e, so in results):
                out.append(("message-lost", f"libtest: failure message {needle!r} not in any failed entry"))
    # totals
    n_ok = sum(1 for _, e, _ in results if e == "ok")
    n_ign = sum(1 for _, e, _ in results if e == "ignored")
    n_failed_final = sum(1 for x in facts if x["kind"] == "parse-error" or x.get("final_failure"))
    tot = (suite_end.get("passed"), suite_end.get("ignored"), suite_end.get("failed"))
    if tot != (n_ok, n_ign, n_failed_final):
        nonfinal_hook = any(x.get("kind") == "hook" and (x.get("retries_left") or 0) > 0 for x in facts)
        only_failed = tot[:2] == (n_ok, n_ign)
        if False and nonfinal_hook and only_failed:
            pass
        out.append(("libtest-totals", f"libtest: suite totals passed/ignored/failed {tot}, entries say {(n_ok, n_ign, n_failed_final)}"))
    verdict_failed = suite_end.get("event") == "failed"
    if verdict_failed != (tot[2] != 0):
        out.append(("libtest-verdict", f"libtest: verdict {suite_end.get('event')} with failed={tot[2]}"))


# ------------------------------------------------------------------------- json

def check_json(rec, out):
    facts = rec["facts"]
    try:
        doc = json.loads(rec["json"])
    except ValueError as e:
        out.append(("json-malformed", f"cucumber json: not well-formed: {e}"))
        return
    if not isinstance(doc, list):
        out.append(("json-malformed", "cucumber json: top level is not an array"))
        return
    got, feat_objs, elem_objs = [], collections.Counter(), collections.Counter()
    perrs = []
    for f in doc:
        fkey = (f.get("uri"), f.get("name"))
        els = f.get("elements", [])
        if f.get("name") == "" and els and str(els[0].get("id", "")).startswith("failed-to-"):
            perrs.append(els[0]["steps"][0]["result"].get("error_message", ""))
            continue
        feat_objs[fkey] += 1
        for el in els:
            elem_objs[(fkey, el.get("name"), el.get("line"), el.get("type"))] += 1
            for st in el.get("steps", []):
                res = st.get("result", {})
                got.append(("bg" if el.get("type") == "background" else "step", f.get("uri"), f.get("name"),
                            el.get("name"), el.get("line"), st.get("keyword", "") + st.get("name", ""),
                            st.get("line"), res.get("status")))
            for which in ("before", "after"):
                for h in el.get(which, []):
                    if h.get("result", {}).get("status") == "failed":
                        got.append(("hook", f.get("uri"), f.get("name"), el.get("name"), el.get("line"),
                                    which, None, "failed"))
    want = []
    for x in facts:
        if x["kind"] == "parse-error":
            continue
        ename = (x["rule"] + " " if x["rule"] is not None else "") + x["scenario"]
        if x["kind"] == "hook":
            want.append(("hook", x["path"], x["feature"], ename, x["scenario_line"], x["hook"].lower(), None, "failed"))
        else:
            want.append((x["kind"], x["path"], x["feature"], ename, x["scenario_line"],
                         x["keyword"] + x["text"], x["line"], x["status"]))
    extra, missing = diff(got, want)
    if extra or missing:
        out.append(("json-facts", f"cucumber json: not in the stream {extra}; missing from the report {missing}"))
    want_err = [x["message"] for x in facts if x["kind"] == "parse-error"]
    if len(perrs) != len(want_err) or any(w not in p for w, p in zip(want_err, perrs)):
        out.append(("json-parse-errors", f"cucumber json: parse errors {perrs}, stream has {want_err}"))
    # structure: one object per feature, one element per scenario/background
    dup_f = {k: n for k, n in feat_objs.items() if n > 1}
    dup_e = {k: n for k, n in elem_objs.items() if n > 1}
    if dup_f or dup_e:
        only_pathless = all(k[0] is None for k in dup_f) and all(k[0][0] is None for k in dup_e)
        out.append(("json-structure",
                    f"cucumber json: feature objects repeated {dict(list(dup_f.items())[:2])}, elements repeated {dict(list(dup_e.items())[:2])}",
                    "json-pathless-feature-split" if only_pathless and dup_f else None))
    for x in facts:
        if x["kind"] != "parse-error" and x["status"] not in ("passed", "skipped"):
            needle = x.get("message") or ERR_TEXT.get(x["status"], "")
            if needle not in rec["json"] and json.dumps(needle)[1:-1] not in rec["json"]:
                out.append(("message-lost", f"cucumber json: failure message {needle!r} not in the report"))


# ------------------------------------------------------------------------ junit

def check_junit(rec, out):
    facts = rec["facts"]
    if rec.get("opts", {}).get("deco") == "DupPathless":
        # two features equal by value: their JUnit test cases cannot be told apart, so
        # pairing cases with attempts would be a guess (the other reporters are checked)
        return
    try:
        root = ET.fromstring(rec["junit"])
    except ET.ParseError as e:
        out.append(("junit-malformed", f"junit xml: not well-formed: {e}"))
        return
    perrs, cases = [], []
    for suite in root.iter("testsuite"):
        sname = suite.get("name", "")
        # suite-level totals agree with the individual entries
        kids = suite.findall("testcase")
        n_fail = sum(1 for c in kids if c.find("failure") is not None)
        n_err = sum(1 for c in kids if c.find("error") is not None)
        tot = (suite.get("tests"), suite.get("failures"), suite.get("errors"))
        if tot != (str(len(kids)), str(n_fail), str(n_err)):
            out.append(("junit-totals", f"junit: suite {sname!r} says tests/failures/errors={tot}, it holds {len(kids)}/{n_fail}/{n_err}"))
        for case in suite.findall("testcase"):
            if sname == "Errors":
                fl = case.find("failure")
                perrs.append((fl.get("message", "") if fl is not None else "") + (fl.text or "" if fl is not None else ""))
                continue
            # the scenario's terminal rendering sits in <system-out>, or inside the
            # <failure> element for cases that are not successes
            text = ""
            for tag in ("system-out", "failure", "skipped", "error"):
                el = case.find(tag)
                if el is not None and el.text and "Scenario: " in el.text:
                    text = el.text
                    break
            parsed, _ = parse_terminal(text, with_features=False)
            kind = "failure" if case.find("failure") is not None else ("skipped" if case.find("skipped") is not None else "success")
            fl = case.find("failure")
            fmsg = ((fl.get("message", "") + " " + (fl.text or "")) if fl is not None else "")
            cases.append((sname, case.get("name", ""), kind, parsed, fmsg))
    want_err = [x["message"] for x in facts if x["kind"] == "parse-error"]
    if len(perrs) != len(want_err) or any(w not in p for w, p in zip(want_err, perrs)):
        out.append(("junit-parse-errors", f"junit: parse errors {perrs}, stream has {want_err}"))
    attempts = rec["attempts"]
    if len(cases) != len(attempts):
        out.append(("junit-cases", f"junit: {len(cases)} test cases for {len(attempts)} finished attempts"))
        return
    for (sname, cname, kind, parsed, fmsg), a in zip(cases, attempts):
        feat, rule, scen, line, col = a["feature"], a["rule"], a["scenario"], a["scenario_line"], a["scenario_col"]
        ok = sname.startswith(f"Feature: {feat}") and f"Scenario: {scen}: " in cname \
            and cname.endswith(f"{line}:{col}") and ((rule is None) == (not cname.startswith("Rule: "))) \
            and (rule is None or cname.startswith(f"Rule: {rule}: "))
        if not ok:
            out.append(("junit-cases", f"junit: test case {cname!r} in suite {sname!r} does not name {feat}/{rule}/{scen} at {line}:{col}"))
            continue
        mine = [x for x in facts if x["kind"] != "parse-error" and x["feature"] == feat and x["rule"] == rule
                and x["scenario"] == scen and x["scenario_line"] == line and x["attempt"] == a["attempt"]]
        want = []
        for x in mine:
            t = expected_term_tuple(x, with_features=False)
            want.append((t[0],) + t[3:])
        got = [(term_tuple(p)[0],) + term_tuple(p)[3:] for p in parsed]
        bad = any(x["status"] not in ("passed", "skipped") for x in mine)
        want_kind = "failure" if bad else ("skipped" if any(x["status"] == "skipped" for x in mine) else "success")
        if kind != want_kind:
            out.append(("junit-case-status", f"junit: test case {cname!r} is a {kind}, the attempt is a {want_kind}"))
        if kind == "skipped" and not got and want:
            out.append(("junit-facts", f"junit: test case {cname!r} is an empty <skipped/>: its {len(want)} executed steps are not in the report",
                        "junit-skipped-case-without-output"))
            continue
        extra, missing = diff(got, want)
        if extra or missing:
            out.append(("junit-facts", f"junit: test case {cname!r}: not in the stream {extra}; missing from the report {missing}"))
        for x in mine:
            if x["status"] not in ("passed", "skipped"):
                needle = x.get("message") or ERR_TEXT.get(x["status"], "")
                if needle not in fmsg and not any(needle in p["msg"] for p in parsed):
                    out.append(("message-lost", f"junit: failure message {needle!r} not in test case {cname!r}"))


def main():
    src, dst = sys.argv[1], sys.argv[2]
    violations, n = [], 0
    per_key = collections.Counter()
    with open(src, encoding="utf-8") as fh:
        for line in fh:
            if not line.strip():
                continue
            rec = json.loads(line)
            n += 1
            found = []
            for name, fn in (("terminal", check_terminal), ("libtest", check_libtest),
                             ("json", check_json), ("junit", check_junit)):
                try:
                    fn(rec, found)
                except Exception as e:  # a parser crash is a finding about the report, keep it visible
                    found.append((f"{name}-parser-crash", f"{name}: parser could not process the report: {type(e).__name__}: {e}"))
            for item in found:
                key, msg = item[0], item[1]
                finding = item[2] if len(item) > 2 else None
                per_key[(key, finding)] += 1
                if per_key[(key, finding)] <= 3:
                    violations.append({"case_index": rec["case_index"], "opts_index": rec["opts_index"],
                                       "key": key, "message": msg, "finding": finding, "opts": rec["opts"]})
    json.dump({"records": n, "violations": violations,
               "counts": {f"{k}|{f}": c for (k, f), c in per_key.items()}}, open(dst, "w"))


if __name__ == "__main__":
    main()
