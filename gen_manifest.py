#!/usr/bin/env python3
"""Regenerates MANIFEST.json from the table below (keeps it valid and in sync)."""
import json, os
ROOT = os.path.dirname(os.path.abspath(__file__))

A = "Engine A (sched): stateless DFS over gate-release / clock schedules of the real runner::Basic stream under a harness-owned executor"
B = "Engine B (hist): bounded-exhaustive enumeration of histories / inputs through the real component against a reference model"

CHECKS = {
 "C01": ("model_checking", "sched", "exhaustive schedule exploration of the real Cucumber::run()/run_and_exit() pipeline under the harness executor, verdict vs reference",
         "Real Cucumber::custom(parser, runner::Basic, writer).with_cli(..).run()/run_and_exit() driven by the gate executor: outcome chains over retry budget 0-2 (failure at before hook / step / after hook, then pass/fail), second step matched/no-match/ambiguous, @allow.skipped on scenario/rule/feature, bystander passing/skipped, parser error none/last(/first), fail-fast (thorough), all completion orders, through 50 writer stacks: {Summarize<Normalize<Basic>>, Normalize<Libtest>, Or(left/right), Tee} x {plain, FailOnSkipped, Repeat failed/skipped, FailOnSkipped<Repeat>} x {run, run_and_exit}. Oracle (iff): reported failed == parser error or final failure or non-allowed skip under fail_on_skipped, computed from the items crossing the runner->writer boundary; also the libtest suite line.", "§6 C01"),
 "C02": ("model_checking", "sched", "exhaustive schedule exploration (stateless DFS, re-execution) of the real runner + per-attempt reference model",
         "Every completion order (L0 full DFS) of gated steps of a scenario under test next to a gated bystander, for every small shape (0-1 feature bg, rule, 0-1 rule bg, 0-2 steps, one odd step kind) x hooks x retry budget 0-2 x per-attempt fault chain; poll-granular (L1) deviation-bounded exploration of tiny configs. The projection of the real event stream on every attempt must equal the sequence predicted by RefScenario (DESIGN App. A).", "§6 C02"),
 "C03": ("model_checking", "sched", "exhaustive schedule exploration of the real runner over all parser item sequences <= bound",
         "All parser item sequences up to length 2 (quick) / 3 (thorough) over {top-level, ruled, both, empty feature, empty rule, error}, eager and lazy (every item and the stream end gated), limits {1,2,unlimited}, retries, fail-fast; all release orders (full DFS or deviation bound 2-3 for >6 gates). Framing oracle on the raw stream.", "§6 C03"),
 "C04": ("model_checking", "sched", "exhaustive schedule exploration incl. pending parser items, virtual retry timers, idle-turn counter",
         "Same item sequences with every parser item gated and released at any later point, retry delays on virtual timers; oracle: started set == supplied set, stream ends, no quiescent state without an enabled transition, no spin inside a poll (hook H4), no poll-horizon overrun.", "§6 C04"),
 "C05": ("model_checking", "sched", "exhaustive schedule + virtual-clock exploration of retry chains",
         "Budget 0-2 from tag / CLI / builder x fail^k chains at every callable x delay none/5s (virtual clock, free advances interleaved) x limit 1/2 x serial/concurrent x hooks next to a gated bystander; oracle: attempt k+1 exists iff attempt k failed and k<N, counters current/left, no overlap, fresh World, delay lower bound in virtual time.", "§6 C05"),
 "C06": ("model_checking", "sched", "exhaustive completion-order exploration with in-flight counting at every prefix and quiescent state",
         "Limits 1-3 via builder, CLI, both, unlimited and default; 2-4 (5 thorough) gated scenarios, retries re-entering; oracle: Started-Finished <= k on every prefix, user code of <= k scenarios in progress, work conservation at quiescent states, no interleaving at k=1.", "§6 C06"),
 "C07": ("model_checking", "sched", "exhaustive schedule + parser-delivery + clock exploration of serial/concurrent mixes",
         "1-2 serial x 1-2(3) concurrent scenarios, @serial on scenario/rule/feature or custom classifier, limits 2/3/unlimited, eager and lazy delivery, serial retry none/immediate/delayed (virtual clock); oracle: no foreign event or user code inside a serial attempt window.", "§6 C07"),
 "C08": ("model_checking", "sched", "exhaustive completion-order exploration with the failing scenario at every position",
         "2-4(5) scenarios, finally failing one at every position, limits 1-3, retry 0/1 with a fail-then-pass decoy, fail-fast via builder/CLI, parser error at positions 0/1; oracle: < k attempts start after the first final failure, nothing ingested after a parser error, all started things finish, run ends; without failure the run is complete (C04/C02 oracles).", "§6 C08"),
 "C09": ("model_checking", "sched", "exhaustive schedule exploration + ground-truth log of user-code calls vs reference call sequence",
         "Families of C02; oracle on the ground-truth log written by the harness World/steps/hooks: call sequence, World identity and mutation counter threading, after-hook reason and World presence, World::new count, no World shared between attempts.", "§6 C09"),
 "C10": ("model_checking", "sched", "exhaustive fault-subset x schedule exploration with a sentinel process panic hook",
         "Every subset of {before, step, after, other scenario's step} x payload {String,&str,custom} x World::new {ok,Err,panic} x gate placement {none, steps, all}; oracle: no poll unwinds, payloads preserved (C02 oracle), sentinel panic hook silent during the run and back in place afterwards, run-Finished last.", "§6 C10"),
}

CHECKS.update({
 "C11": ("model_checking", "hist", "exhaustive enumeration of all linear extensions of the happened-before order (prefix-sharing DFS over cloned writer states) against a reference normalizer",
         "Every linearization (respecting bracket-before-content, attempt k before k+1, run-Finished last) of every entity set within a weight bound (<=2 features, <=1 rule each, <=2/3 scenarios per feature, <=2 attempts, 2-3 events per attempt, optional ParsingFinished / parser error floating freely) is fed call by call into the real Normalize<Rec>; after EVERY call the forwarded prefix must equal that of a 100-line reference normalizer (DESIGN App. B); declarative checks (permutation, contiguity, nesting, Finished last) on every complete output. Includes orders runner::Basic never produces.", "§6 C11"),
 "C12": ("exploration", "hist", "bounded-exhaustive enumeration of normalized streams generated by the scenario reference model, against an independent recount",
         "All streams of a grammar: scenario shape (0-1 background step, 0-2 steps, one odd kind) x hooks x retry budget 0-2 x fault chain x second scenario from a 10-element representative set x placement x 0-1(2) parser errors x {plain, FailOnSkipped-rewritten, fail-fast cut} through Summarize<Rec>, Summarize<Repeat<Rec>>, Repeat<Summarize<Rec>> (failed / skipped). Oracle: recount from the statement (App. B), counters unchanged by replayed events, summary text parsed back and written exactly once after run-Finished.", "§6 C12"),
 "C13": ("exploration", "hist", "exhaustive enumeration of all event sequences up to a length over a fixed alphabet, against reference map/filter/route functions",
         "All sequences (contract-abiding or not) of length <=2 over a 54-symbol alphabet (every event kind x 5 tag-placement contexts x retries x background) and length 3 (4 thorough) over a core alphabet, plus arbitrary writes, through 16 nestings of FailOnSkipped / Repeat / Tee / Or / discard (depth <= 3); inner recorders compared with the reference after every input; Stats algebra (max / sum / zero / delegate) over counter values {0,1,2}^2.", "§6 C13"),
 "C15": ("exploration", "hist", "exhaustive enumeration of filters x tagged features through the real Cucumber::filter_run with a recording Runner, against a set-semantics reference",
         "576 features (tags {a,b} on feature x rule x scenarios, names from a pool) x 100+ filter configurations: 45 tag formulas of depth <=2 (built directly and through real clap parsing of --tags), 4 name regexes, 4 closures, and the precedence combinations name > tags > closure. Oracle: the features received by the runner equal the originals with exactly the accepted scenarios, in order, everything else intact.", "§6 C15"),
 "C16": ("exploration", "hist", "exhaustive enumeration of generated outline features against a regex-free reference expansion",
         "Generated .feature texts (outline top-level / in a rule; 1-2 Examples tables, tagged or not, 0-2 rows, header only, column orders; placeholders plain / adjacent / repeated / unknown / malformed in name, step, doc string, table cell; values with <, >, $, regex metacharacters, spaces, non-ASCII) parsed by gherkin and expanded by the real Ext::expand_examples (subset through parser::Basic on scratch files). Oracle: hand-written scanner reference; one scenario per row in order, substitutions, tags, distinct positions, single error naming an unknown placeholder.", "§6 C16"),
 "C17": ("exploration", "hist", "exhaustive enumeration of definition sets x registration orders x hash-iteration permutations (hook H2) x step texts",
         "All definition sets of size <=3 (4 thorough) from 40 (keyword, regex, location) candidates over 9 regexes (nested, optional, named, alternation, multi-byte), every registration order, every permutation of the candidate iteration order, 3 step types x 11 texts through the real Collection::find. Oracle: reference by Regex::captures; not-found / the single definition (by calling it) with whole match + named groups / ambiguity listing exactly the candidates in one order for all orders.", "§6 C17"),
 "C18": ("exploration", "hist", "complete product enumeration through RetryOptions::parse_from_tags (pure) + Engine A end-to-end for builder/CLI merging",
         "Complete product of retry tags {none,@retry,@retry(3),@retry.after(2s),@retry(3).after(2s)} on scenario x rule x feature x --retry x --retry-after x --retry-tag-filter {none,@x,not @x,@x and @y} x placement of x/y against the precedence of the statement; builder-vs-CLI merging of retries, delay, concurrency and fail-fast is exercised end-to-end by the Engine A families retry / conc / ff (checks C05, C06, C08).", "§6 C18"),
})

CHECKS.update({
 "C20": ("model_checking", "sched", "exhaustive schedule exploration of the real init_tracing() pipeline (tracing feature build, hook H3 hands over the Dispatch)",
         "Real Cucumber::custom(..).init_tracing().run() under the gate executor, every poll inside dispatcher::with_default: 1-3 concurrent scenarios, steps and both hooks emitting 0-2 uniquely numbered log events before and after their gate, retry 0/1 with a failure at step / before hook / after hook, gates on steps or on everything, limits 1/2; full DFS or deviation bound 2 (quick) / 4 (thorough). Oracle: every emitted id appears exactly once as a Log of the emitting scenario attempt, between the Started and the result of its step/hook, before run-Finished. Quiescence = 16 polls without observable change (forward_logs self-wakes).", "§6 C20"),
})

CHECKS.update({
 "C14": ("exploration", "hist", "bounded-exhaustive enumeration of normalized streams x naming alphabets x reporter options, reports parsed back by independent parsers",
         "Streams of the C12 grammar (any outcomes, hooks, retries, background failures, parser errors; FailOnSkipped-rewritten variant) x {with path, path-less} x {plain names, names with quotes / markup / non-ASCII, same-named scenarios at different lines} x reporter options (libtest show_output / report_time, verbosity 0/1) through Normalize<Basic>, Normalize<Libtest>, Normalize<Json>, Normalize<JUnit> into memory sinks. tools/parse_reports.py (python json, xml.etree, a line parser also applied to JUnit's embedded terminal text) parses every report back; multiset of facts per feature / rule / scenario / attempt == facts of the stream; documents well-formed; libtest started/result pairing, totals and verdict; JSON one object per feature / element; JUnit one test case per finished attempt with the right suite, name and status.", "§6 C14"),
})

CHECKS.update({
 "C19": ("exploration", "hist", "exhaustive enumeration of step texts against a compiled zoo of annotated functions with hand-written reference matchers",
         "A zoo compiled into the harness: 23 attribute instances on 21 functions for 2 Worlds (sync/async, unit/Result, typed args, slice, #[step] and `step` argument, literal / regex = / expr =, custom Parameter with one and several capturing groups, several attributes on one fn, named group). Every text of <=3 (4 thorough) tokens over a 12-token alphabet plus positive and near-miss texts of every entry (prefix, suffix, padding, case, out-of-range numbers) x 3 keywords x 2 Worlds through World::collection().find() and a call of the found function. Oracle: registration counts per keyword and World via inventory; per text the hand-written matcher of each entry decides not-found / the function with exactly the parsed arguments / failure (parse failure or returned Err must fail the step).", "§6 C19"),
})

NOT_YET = {
}

def main():
    manifest = {
        "version": 1,
        "setup_cmd": "cd /verif/harness && CARGO_NET_OFFLINE=true CARGO_TARGET_DIR=/verif/harness/target/notrace cargo build --release --offline && CARGO_NET_OFFLINE=true CARGO_TARGET_DIR=/verif/harness/target/trace cargo build --release --offline --features tracing",
        "hooks": {
            "guard": "--cfg cucumber_verif",
            "enable": "RUSTFLAGS='--cfg cucumber_verif' via /verif/harness/.cargo/config.toml ([build] rustflags); the harness depends on cucumber by path /repo",
            "baseline_off_cmd": "cd /repo && cargo nextest run --workspace --no-fail-fast --tool-config-file pb:/w/lib/nextest.toml --profile pb --test-threads 8 --offline || cargo test --workspace --no-fail-fast --offline",
            "source_commits": json.load(open(os.path.join(ROOT, "hooks_commits.json"))),
            "add_only": True,
        },
        "engines": [
            {"name": "sched", "path": "harness/src/exec.rs", "serves_properties": ["C01","C02","C03","C04","C05","C06","C07","C08","C09","C10","C20"], "kind_free_text": A},
            {"name": "hist", "path": "harness/src/hist.rs", "serves_properties": ["C11","C12","C13","C14","C15","C16","C17","C18","C19"], "kind_free_text": B},
        ],
        "checks": [],
        "notes": "Exit codes of ./check: 0 held (possibly with KNOWN-FINDING lines), 1 violation, 2 machinery error. KNOWN_FINDINGS.txt lists recorded and fixed defects. See DESIGN.md.",
        "not_applicable": [],
    }
    extra = json.load(open(os.path.join(ROOT, "checks_extra.json"))) if os.path.exists(os.path.join(ROOT, "checks_extra.json")) else {}
    table = dict(CHECKS)
    table.update({k: tuple(v) for k, v in extra.get("checks", {}).items()})
    for pid in sorted(table):
        cat, engine, technique, text, ref = table[pid]
        manifest["checks"].append({
            "property_id": pid,
            "quick_cmd": f"./check {pid} --tier quick",
            "thorough_cmd": f"./check {pid} --tier thorough",
            "evidence_file": f"/verif/evidence/{pid}.json",
            "replay_cmd_template": f"./check {pid} --replay {{path}}",
            "engine": engine,
            "level_claimed": {"category": cat, "text": text, "design_ref": ref},
            "level_note": "Trusted: the harness executor/gates/virtual clock (hooks H1-H4), the reference models in harness/src/refm.rs and the generated-feature alphabet; bounds as reported in the evidence file. Not covered: behaviours outside the enumerated shapes/alphabets, wake-ups landing inside a poll of non-harness code.",
            "technique": technique,
        })
    for pid in [f"C{i:02d}" for i in range(1, 21)]:
        if pid not in table:
            manifest["not_applicable"].append({"property_id": pid, "reason": extra.get("not_applicable", {}).get(pid, "check not built yet (work in progress in this session); no verdict is claimed")})
    json.dump(manifest, open(os.path.join(ROOT, "MANIFEST.json"), "w"), indent=1)

main()
