//! Configuration families of Engine A: small sharp drivers whose parameters
//! are enumerated completely.

use std::{collections::BTreeMap, time::Duration};

use crate::{
    hs::{GateMode, Outcome, Plan, WOutcome},
    spec::{Config, FeatSpec, Gran, Item, RuleSpec, ScenInfo, ScenSpec, StepKind},
};

#[derive(Clone, Copy, Debug, PartialEq, Eq)]
pub enum Tier {
    Quick,
    Thorough,
}

#[derive(Clone, Copy, Debug, PartialEq, Eq)]
pub enum Fault {
    None,
    /// index into `[before?] ++ calls ++ [after?]`
    Call(usize, Outcome),
    WorldErr,
    WorldPanic,
}

/// Callable list of a scenario: `[before?] ++ declared calls ++ [after?]`.
fn callable_keys(info: &ScenInfo, before: bool, after: bool) -> Vec<(String, Option<StepKind>)> {
    let mut v = Vec::new();
    if before {
        v.push((format!("before {}", info.name), None));
    }
    for c in &info.calls {
        v.push((c.key.clone(), Some(c.kind)));
    }
    if after {
        v.push((format!("after {}", info.name), None));
    }
    v
}

/// Derives invocation-indexed outcome lists from a per-attempt fault chain.
/// Returns `None` if the chain is not realisable.
pub fn chain_plan(
    info: &ScenInfo,
    before: bool,
    after: bool,
    chain: &[Fault],
) -> Option<(BTreeMap<String, Vec<Outcome>>, Vec<WOutcome>)> {
    let keys = callable_keys(info, before, after);
    let mut outcomes: BTreeMap<String, Vec<Outcome>> = BTreeMap::new();
    let mut worlds: Vec<WOutcome> = Vec::new();
    for (k, fault) in chain.iter().enumerate() {
        let mut failed = false;
        let mut used = matches!(fault, Fault::None);
        let mut have_world = false;
        let mut stop = false;
        let mut create = |worlds: &mut Vec<WOutcome>, used: &mut bool| -> bool {
            match fault {
                Fault::WorldErr => {
                    worlds.push(WOutcome::Err);
                    *used = true;
                    false
                }
                Fault::WorldPanic => {
                    worlds.push(WOutcome::Panic);
                    *used = true;
                    false
                }
                _ => {
                    worlds.push(WOutcome::Ok);
                    true
                }
            }
        };
        for (idx, (key, kind)) in keys.iter().enumerate() {
            let is_before = before && idx == 0;
            let is_after = after && idx == keys.len() - 1;
            if is_after {
                let o = match fault {
                    Fault::Call(i, o) if *i == idx => {
                        used = true;
                        *o
                    }
                    _ => Outcome::Pass,
                };
                outcomes.entry(key.clone()).or_default().push(o);
                failed |= o.is_fail();
                continue;
            }
            if stop {
                continue;
            }
            if is_before {
                if !create(&mut worlds, &mut used) {
                    failed = true;
                    stop = true;
                    continue;
                }
                have_world = true;
            } else {
                match kind.unwrap() {
                    StepKind::NoMatch => {
                        stop = true;
                        continue;
                    }
                    StepKind::Ambiguous => {
                        failed = true;
                        stop = true;
                        continue;
                    }
                    StepKind::Matched => {
                        if !have_world {
                            if !create(&mut worlds, &mut used) {
                                failed = true;
                                stop = true;
                                continue;
                            }
                            have_world = true;
                        }
                    }
                }
            }
            let o = match fault {
                Fault::Call(i, o) if *i == idx => {
                    used = true;
                    *o
                }
                _ => Outcome::Pass,
            };
            outcomes.entry(key.clone()).or_default().push(o);
            if o.is_fail() {
                failed = true;
                stop = true;
            }
        }
        if !used {
            return None;
        }
        if !failed && k + 1 < chain.len() {
            return None;
        }
    }
    for v in outcomes.values_mut() {
        v.push(Outcome::Pass);
    }
    Some((outcomes, worlds))
}

fn base(name: String) -> Config {
    Config { name, ..Config::default() }
}

fn scen(tags: &[&str], steps: &[StepKind]) -> ScenSpec {
    ScenSpec { tags: tags.iter().map(|s| (*s).to_owned()).collect(), steps: steps.to_vec() }
}

fn feat(scenarios: Vec<ScenSpec>) -> FeatSpec {
    FeatSpec { scenarios, ..FeatSpec::default() }
}

const M: StepKind = StepKind::Matched;

fn hooks4() -> [(bool, bool); 4] {
    [(false, false), (true, false), (false, true), (true, true)]
}

/// All step-kind vectors of length `n` with at most one non-`Matched` entry.
fn kinds_one_odd(n: usize) -> Vec<Vec<StepKind>> {
    let mut v = vec![vec![M; n]];
    for i in 0..n {
        for k in [StepKind::NoMatch, StepKind::Ambiguous] {
            let mut x = vec![M; n];
            x[i] = k;
            v.push(x);
        }
    }
    v
}

// ---------------------------------------------------------------- family seq

/// One scenario under test (every shape x fault chain) next to a gated bystander.
pub fn fam_seq(tier: Tier) -> Vec<Config> {
    let mut out = Vec::new();
    let payloads: &[Outcome] = match tier {
        Tier::Quick => &[Outcome::PanicString],
        Tier::Thorough => &[Outcome::PanicString, Outcome::PanicStr, Outcome::PanicCustom],
    };
    for fbg in 0..=1usize {
        for rule_mode in 0..3usize {
            // 0: no rule, 1: rule, 2: rule with background
            for nsteps in 0..=2usize {
                let total = fbg + usize::from(rule_mode == 2) + nsteps;
                for kinds in kinds_one_odd(total) {
                    let (k_fbg, rest) = kinds.split_at(fbg);
                    let (k_rbg, k_steps) = rest.split_at(usize::from(rule_mode == 2));
                    let target = scen(&[], k_steps);
                    let f1 = if rule_mode == 0 {
                        FeatSpec { bg: k_fbg.to_vec(), scenarios: vec![target], ..Default::default() }
                    } else {
                        FeatSpec {
                            bg: k_fbg.to_vec(),
                            rules: vec![RuleSpec {
                                tags: vec![],
                                bg: k_rbg.to_vec(),
                                scenarios: vec![target],
                            }],
                            ..Default::default()
                        }
                    };
                    for (before, after) in hooks4() {
                        for n in 0..=2usize {
                            for bystander in [true, false] {
                                gen_seq_chains(
                                    tier, &f1, before, after, n, bystander, payloads, &mut out,
                                );
                            }
                        }
                    }
                }
            }
        }
    }
    // `Background:` sections without steps (feature level, rule level, both), with and without
    // hooks: the attempt is what it would be without the section
    for (fbg, rbg) in [(0usize, 0usize), (1, 0), (0, 1)] {
        for (before, after) in hooks4() {
            for nsteps in [0usize, 2] {
                let mut cfg = base(format!("seq/empty-bg|f{fbg}|r{rbg}|b{}a{}|n{nsteps}", u8::from(before), u8::from(after)));
                let r1 = RuleSpec { tags: vec![], bg: vec![M; rbg], scenarios: vec![scen(&[], &vec![M; nsteps])] };
                cfg.feats = vec![FeatSpec {
                    tags: vec!["empty-bg".into()],
                    bg: vec![M; fbg],
                    // (at least one step here: the gherkin crate attaches what follows a step-less
                    // scenario at feature level - the rule and its background - to that scenario)
                    scenarios: vec![scen(&[], &vec![M; nsteps.max(1)])],
                    rules: vec![r1],
                }];
                cfg.items = vec![Item::Feat(0)];
                cfg.before = before;
                cfg.after = after;
                cfg.conc_builder = Some(Some(1));
                cfg.plan.gates = GateMode::Steps;
                cfg.max_execs = 200;
                out.push(cfg);
            }
        }
    }
    // two rules of one feature that share their name (or have none) but not their background
    for tag in ["twin-rules", "unnamed-rules"] {
        for bg2 in [0usize, 2] {
            for conc in [1usize, 2] {
                for after in [false, true] {
                    let mut cfg = base(format!("seq/{tag}|bg{bg2}|c{conc}|a{}", u8::from(after)));
                    let r1 = RuleSpec { tags: vec![], bg: vec![M], scenarios: vec![scen(&[], &[M])] };
                    let r2 = RuleSpec { tags: vec![], bg: vec![M; bg2], scenarios: vec![scen(&[], &[M]), scen(&[], &[])] };
                    cfg.feats = vec![FeatSpec { tags: vec![tag.into()], bg: vec![], scenarios: vec![], rules: vec![r1, r2] }];
                    cfg.items = vec![Item::Feat(0)];
                    cfg.after = after;
                    cfg.conc_builder = Some(Some(conc));
                    cfg.plan.gates = GateMode::Steps;
                    cfg.max_execs = if tier == Tier::Quick { 500 } else { 50_000 };
                    out.push(cfg);
                }
            }
        }
    }
    out
}

fn gen_seq_chains(
    tier: Tier,
    f1: &FeatSpec,
    before: bool,
    after: bool,
    n: usize,
    bystander: bool,
    payloads: &[Outcome],
    out: &mut Vec<Config>,
) {
    let mut f1 = f1.clone();
    // retry budget by tag on the scenario
    let tag = format!("retry({n})");
    if n > 0 {
        if let Some(s) = f1.scenarios.first_mut() {
            s.tags.push(tag);
        } else {
            f1.rules[0].scenarios[0].tags.push(tag);
        }
    }
    let mut cfg = base(String::new());
    cfg.feats = vec![f1];
    cfg.items = vec![Item::Feat(0)];
    if bystander {
        cfg.feats.push(feat(vec![scen(&[], &[M])]));
        cfg.items.push(Item::Feat(1));
    }
    cfg.before = before;
    cfg.after = after;
    cfg.conc_builder = Some(Some(2));
    cfg.gran = Gran::L0;
    let info = cfg.scen_infos()[0].clone();
    let keys = callable_keys(&info, before, after);
    // first-attempt faults
    let mut firsts: Vec<Fault> = vec![Fault::None];
    for (i, (_, kind)) in keys.iter().enumerate() {
        if kind.is_none() || *kind == Some(M) {
            for p in payloads {
                firsts.push(Fault::Call(i, *p));
            }
        }
    }
    if !bystander {
        firsts.push(Fault::WorldErr);
        firsts.push(Fault::WorldPanic);
    }
    let after_idx = after.then(|| keys.len() - 1);
    let mut chains: Vec<Vec<Fault>> = Vec::new();
    for f0 in &firsts {
        chains.push(vec![*f0]);
        if n >= 1 && *f0 != Fault::None {
            let mut seconds = vec![Fault::None, *f0];
            if let Some(ai) = after_idx {
                seconds.push(Fault::Call(ai, Outcome::PanicString));
            }
            if tier == Tier::Thorough {
                seconds = firsts.clone();
            }
            for f1 in &seconds {
                chains.push(vec![*f0, *f1]);
                if n >= 2 && *f1 != Fault::None {
                    for f2 in [Fault::None, *f1] {
                        chains.push(vec![*f0, *f1, f2]);
                    }
                }
            }
        }
    }
    chains.dedup();
    for chain in chains {
        let Some((outcomes, worlds)) = chain_plan(&info, before, after, &chain) else { continue };
        let mut c = cfg.clone();
        c.plan = Plan { outcomes, world_new: worlds, gates: GateMode::Steps, ..Plan::default() };
        c.name = format!(
            "seq/{}|b{}a{}|n{n}|by{}|{:?}",
            c.feats[0].text(0).replace('\n', ";"),
            u8::from(before),
            u8::from(after),
            u8::from(bystander),
            chain
        );
        out.push(c);
    }
}

// -------------------------------------------------------------- family frame

#[derive(Clone, Copy, Debug, PartialEq, Eq)]
enum ItemKind {
    Top,
    Ruled,
    Both,
    Empty,
    EmptyRule,
    Err,
}

fn item_feat(k: ItemKind) -> Option<FeatSpec> {
    let s = || scen(&[], &[M]);
    Some(match k {
        ItemKind::Top => feat(vec![s(), s()]),
        ItemKind::Ruled => FeatSpec {
            rules: vec![RuleSpec { scenarios: vec![s(), s()], ..Default::default() }],
            ..Default::default()
        },
        ItemKind::Both => FeatSpec {
            scenarios: vec![s()],
            rules: vec![RuleSpec { scenarios: vec![s()], ..Default::default() }],
            ..Default::default()
        },
        ItemKind::Empty => FeatSpec::default(),
        ItemKind::EmptyRule => FeatSpec {
            scenarios: vec![s()],
            rules: vec![RuleSpec::default()],
            ..Default::default()
        },
        ItemKind::Err => return None,
    })
}

fn item_seqs(max_len: usize) -> Vec<Vec<ItemKind>> {
    let kinds = [
        ItemKind::Top,
        ItemKind::Ruled,
        ItemKind::Both,
        ItemKind::Empty,
        ItemKind::EmptyRule,
        ItemKind::Err,
    ];
    let mut out: Vec<Vec<ItemKind>> = vec![vec![]];
    let mut cur: Vec<Vec<ItemKind>> = vec![vec![]];
    for _ in 0..max_len {
        let mut next = Vec::new();
        for p in &cur {
            for k in kinds {
                let mut q = p.clone();
                q.push(k);
                next.push(q);
            }
        }
        out.extend(next.iter().cloned());
        cur = next;
    }
    out
}

fn frame_config(seq: &[ItemKind]) -> Config {
    let mut cfg = base(String::new());
    for (n, k) in seq.iter().enumerate() {
        match item_feat(*k) {
            Some(f) => {
                cfg.feats.push(f);
                cfg.items.push(Item::Feat(cfg.feats.len() - 1));
            }
            None => cfg.items.push(Item::Err(format!("e{n}"))),
        }
    }
    cfg
}

/// Item sequences x delivery x limits x retries x fail-fast (C03, C04).
pub fn fam_frame(tier: Tier) -> Vec<Config> {
    let mut out = Vec::new();
    let max_len = if tier == Tier::Quick { 2 } else { 3 };
    for seq in item_seqs(max_len) {
        for lazy in [false, true] {
            for conc in [Some(1usize), Some(2), None] {
                for (retry, fail) in [(false, false), (true, false), (false, true)] {
                    for ff in [false, true] {
                        let mut cfg = frame_config(&seq);
                        if (retry || fail) && cfg.feats.is_empty() {
                            continue;
                        }
                        cfg.lazy = lazy;
                        cfg.lazy_end = lazy;
                        cfg.conc_builder = Some(conc);
                        cfg.fail_fast_builder = ff;
                        cfg.plan.gates = GateMode::Steps;
                        if retry {
                            cfg.retries_cli = Some(1);
                            // the first scenario fails once
                            let infos = cfg.scen_infos();
                            if let Some(i0) = infos.first() {
                                if let Some(c) = i0.calls.first() {
                                    cfg.plan
                                        .outcomes
                                        .insert(c.key.clone(), vec![Outcome::PanicString, Outcome::Pass]);
                                }
                            } else {
                                continue;
                            }
                        }
                        if fail {
                            // the first scenario fails finally
                            let infos = cfg.scen_infos();
                            match infos.first().and_then(|i| i.calls.first()) {
                                Some(c) => {
                                    cfg.plan.outcomes.insert(c.key.clone(), vec![Outcome::PanicString]);
                                }
                                None => continue,
                            }
                        }
                        let ngates = cfg.scen_infos().len() + if lazy { seq.len() + 1 } else { 0 };
                        if ngates > 6 {
                            cfg.bound = Some(if tier == Tier::Quick { 2 } else { 3 });
                        }
                        cfg.max_execs = if tier == Tier::Quick { 3_000 } else { 100_000 };
                        cfg.name = format!(
                            "frame/{seq:?}|lazy{}|c{conc:?}|r{}|fail{}|ff{}",
                            u8::from(lazy),
                            u8::from(retry),
                            u8::from(fail),
                            u8::from(ff)
                        );
                        out.push(cfg);
                    }
                }
            }
        }
    }
    out
}

// --------------------------------------------------------------- family conc

/// Concurrency limit via builder / CLI / both, all completion orders (C06).
pub fn fam_conc(tier: Tier) -> Vec<Config> {
    let mut out = Vec::new();
    let max_sc = if tier == Tier::Quick { 4 } else { 5 };
    // (builder, cli, effective)
    let mut limits: Vec<(Option<Option<usize>>, Option<usize>)> = Vec::new();
    for k in 1..=3usize {
        limits.push((Some(Some(k)), None));
        limits.push((None, Some(k)));
        limits.push((Some(Some(4 - k.min(3))), Some(k)));
        limits.push((Some(None), Some(k)));
    }
    limits.push((Some(None), None));
    limits.push((None, None));
    for nsc in 2..=max_sc {
        for (b, c) in &limits {
            for retry in [false, true] {
                for (split, sync) in [(false, false), (true, false), (false, true)] {
                    let mut cfg = base(String::new());
                    // (every other scenario carries a tag that merely starts with `serial`: an
                    // ordinary tag, the scenario is as concurrent as its neighbours)
                    let scs: Vec<ScenSpec> = (0..nsc)
                        .map(|i| if i % 2 == 1 { scen(&[["serialization", "serial_port"][i / 2 % 2]], &[M]) } else { scen(&[], &[M]) })
                        .collect();
                    if split && nsc >= 2 {
                        let (a, bb) = scs.split_at(nsc / 2);
                        cfg.feats = vec![feat(a.to_vec()), feat(bb.to_vec())];
                        cfg.items = vec![Item::Feat(0), Item::Feat(1)];
                    } else {
                        cfg.feats = vec![feat(scs)];
                        cfg.items = vec![Item::Feat(0)];
                    }
                    cfg.conc_builder = *b;
                    cfg.conc_cli = *c;
                    cfg.plan.gates = if sync { GateMode::None } else { GateMode::Steps };
                    cfg.expect_conservation = !retry && !sync;
                    if retry {
                        cfg.retries_builder = Some(1);
                        let infos = cfg.scen_infos();
                        let key = infos[nsc - 1].calls[0].key.clone();
                        cfg.plan.outcomes.insert(key, vec![Outcome::PanicString, Outcome::Pass]);
                    }
                    if nsc + usize::from(retry) > 4 {
                        cfg.bound = Some(if tier == Tier::Quick { 2 } else { 4 });
                    }
                    cfg.max_execs = if tier == Tier::Quick { 5_000 } else { 300_000 };
                    cfg.name = format!(
                        "conc/n{nsc}|b{b:?}|c{c:?}|r{}|split{}|sync{}",
                        u8::from(retry),
                        u8::from(split),
                        u8::from(sync)
                    );
                    out.push(cfg);
                }
            }
        }
    }
    // several delayed retries becoming ready at once next to a long-running scenario:
    // more ready retries than free slots
    for nsc in 3..=(if tier == Tier::Quick { 4 } else { 5 }) {
        for conc in [Some(1usize), Some(2), Some(3)] {
            for holder_last in [true, false] {
                let mut cfg = base(String::new());
                let mut scs: Vec<ScenSpec> = (0..nsc - 1).map(|_| scen(&["retry(1).after(5s)"], &[M])).collect();
                if holder_last {
                    scs.push(scen(&[], &[M]));
                } else {
                    scs.insert(0, scen(&[], &[M]));
                }
                cfg.feats = vec![feat(scs)];
                cfg.items = vec![Item::Feat(0)];
                cfg.conc_builder = Some(conc);
                cfg.plan.gates = GateMode::Steps;
                cfg.clock_budget = 1;
                cfg.clock_step = Duration::from_secs(6);
                let infos = cfg.scen_infos();
                for i in infos.iter().filter(|i| i.has_tag("retry(1).after(5s)")) {
                    cfg.plan.outcomes.insert(i.calls[0].key.clone(), vec![Outcome::PanicString, Outcome::Pass]);
                }
                cfg.bound = Some(if tier == Tier::Quick { 2 } else { 3 });
                cfg.max_execs = if tier == Tier::Quick { 4_000 } else { 300_000 };
                cfg.name = format!("conc/delayed|n{nsc}|c{conc:?}|holder_last{}", u8::from(holder_last));
                out.push(cfg);
            }
        }
    }
    // two delayed retries with different delays, the longer one failing first: each waits for
    // its own deadline
    for conc in [Some(2usize), Some(3), None] {
        for long_first in [true, false] {
            let mut cfg = base(String::new());
            let (a, b) = if long_first { ("retry(1).after(10s)", "retry(1).after(5s)") } else { ("retry(1).after(5s)", "retry(1).after(10s)") };
            cfg.feats = vec![feat(vec![scen(&[a], &[M]), scen(&[b], &[M]), scen(&[], &[M])])];
            cfg.items = vec![Item::Feat(0)];
            cfg.conc_builder = Some(conc);
            cfg.plan.gates = GateMode::Steps;
            cfg.clock_budget = 2;
            cfg.clock_step = Duration::from_secs(6);
            let infos = cfg.scen_infos();
            for i in infos.iter().take(2) {
                cfg.plan.outcomes.insert(i.calls[0].key.clone(), vec![Outcome::PanicString, Outcome::Pass]);
            }
            cfg.bound = Some(if tier == Tier::Quick { 2 } else { 3 });
            cfg.max_execs = if tier == Tier::Quick { 4_000 } else { 300_000 };
            cfg.name = format!("conc/two-delays|c{conc:?}|long_first{}", u8::from(long_first));
            out.push(cfg);
        }
    }
    // a feature arriving late (lazy parser) while fewer scenarios than the limit are running:
    // the free slots are filled from it after the next completion
    for (b, c) in [(Some(Some(3usize)), None), (Some(Some(4)), None), (Some(None), None), (Some(Some(1)), Some(3usize))] {
        for first in 1..=3usize {
            for retry in [false, true] {
                let mut cfg = base(String::new());
                cfg.feats = vec![
                    feat((0..first).map(|_| scen(&[], &[M])).collect()),
                    feat((0..3).map(|_| scen(&[], &[M])).collect()),
                ];
                cfg.items = vec![Item::Feat(0), Item::Feat(1)];
                cfg.lazy = true;
                cfg.lazy_end = true;
                cfg.conc_builder = b;
                cfg.conc_cli = c;
                cfg.plan.gates = GateMode::Steps;
                if retry {
                    cfg.retries_builder = Some(1);
                    let key = cfg.scen_infos()[0].calls[0].key.clone();
                    cfg.plan.outcomes.insert(key, vec![Outcome::PanicString, Outcome::Pass]);
                }
                cfg.bound = Some(if tier == Tier::Quick { 2 } else { 3 });
                cfg.max_execs = if tier == Tier::Quick { 3_000 } else { 100_000 };
                cfg.name = format!("conc/late|b{b:?}|c{c:?}|first{first}|r{}", u8::from(retry));
                out.push(cfg);
            }
        }
    }
    if tier == Tier::Thorough {
        // default limit 64 observed with 66 trivial scenarios
        let mut cfg = base("conc/default64".into());
        cfg.feats = vec![feat((0..66).map(|_| scen(&[], &[M])).collect())];
        cfg.items = vec![Item::Feat(0)];
        cfg.plan.gates = GateMode::Steps;
        cfg.bound = Some(0);
        cfg.expect_conservation = true;
        out.push(cfg);
    }
    out
}

// ------------------------------------------------------------- family serial

/// Mixes of serial and concurrent scenarios (C07).
pub fn fam_serial(tier: Tier) -> Vec<Config> {
    let mut out = Vec::new();
    let d = Duration::from_secs(5);
    // where the serial tag sits
    for place in ["scenario", "rule", "feature", "custom", "feature-rule", "mixed-rule"] {
        for nconc in 1..=3usize {
            if (place == "feature-rule" || place == "mixed-rule") && nconc == 3 {
                continue;
            }
            for nser in 1..=2usize {
                for conc in [Some(1usize), Some(2), Some(3), None] {
                    for layout in ["same", "serial-first", "serial-last"] {
                        for lazy in [false, true] {
                            for retry in ["none", "now", "delay", "delay2", "delayboth"] {
                                if (retry == "delay2" || retry == "delayboth") && nser < 2 {
                                    continue;
                                }
                                if tier == Tier::Quick && nconc == 3 && !(retry == "delay" || retry == "delay2" || retry == "delayboth") {
                                    continue;
                                }
                                if place == "mixed-rule" && layout != "same" {
                                    continue;
                                }
                                if place != "scenario" && place != "mixed-rule" && layout == "same" {
                                    // whole feature/rule serial: needs its own feature
                                    continue;
                                }
                                let tagname = if place == "custom" { "solo" } else { "serial" };
                                let mut ser_tags: Vec<String> = vec![];
                                if place == "scenario" || place == "custom" || place == "mixed-rule" {
                                    ser_tags.push(tagname.into());
                                }
                                match retry {
                                    "now" => ser_tags.push("retry(1)".into()),
                                    // `delayboth`: two serial retries whose delays run out together
                                    "delay" | "delayboth" => ser_tags.push("retry(1).after(5s)".into()),
                                    _ => {}
                                }
                                let ser: Vec<ScenSpec> = (0..nser)
                                    .map(|i| {
                                        let mut t = ser_tags.clone();
                                        if retry == "delay2" {
                                            // the later one waits longer: the retry queue head is not the first due
                                            t.push(format!("retry(1).after({}s)", 5 * (i + 1)));
                                        }
                                        ScenSpec { tags: t, steps: vec![M] }
                                    })
                                    .collect();
                                let con: Vec<ScenSpec> = (0..nconc).map(|_| scen(&[], &[M])).collect();
                                let mut cfg = base(String::new());
                                let ser_feat = match place {
                                    "rule" => FeatSpec {
                                        rules: vec![RuleSpec {
                                            tags: vec![tagname.into()],
                                            bg: vec![],
                                            scenarios: ser.clone(),
                                        }],
                                        ..Default::default()
                                    },
                                    "feature" => FeatSpec {
                                        tags: vec![tagname.into()],
                                        scenarios: ser.clone(),
                                        ..Default::default()
                                    },
                                    // the tag on the feature, the scenarios inside an untagged rule
                                    "feature-rule" => FeatSpec {
                                        tags: vec![tagname.into()],
                                        rules: vec![RuleSpec { tags: vec![], bg: vec![], scenarios: ser.clone() }],
                                        ..Default::default()
                                    },
                                    _ => feat(ser.clone()),
                                };
                                match layout {
                                    "same" if place == "mixed-rule" => {
                                        // one rule holding serial and concurrent scenarios alike
                                        let mut all = con.clone();
                                        all.extend(ser.clone());
                                        cfg.feats = vec![FeatSpec {
                                            rules: vec![RuleSpec { tags: vec![], bg: vec![], scenarios: all }],
                                            ..Default::default()
                                        }];
                                    }
                                    "same" => {
                                        let mut all = con.clone();
                                        all.extend(ser.clone());
                                        cfg.feats = vec![feat(all)];
                                    }
                                    "serial-first" => cfg.feats = vec![ser_feat, feat(con)],
                                    _ => cfg.feats = vec![feat(con), ser_feat],
                                }
                                cfg.items = (0..cfg.feats.len()).map(Item::Feat).collect();
                                cfg.custom_which = place == "custom";
                                cfg.conc_builder = Some(conc);
                                cfg.lazy = lazy;
                                cfg.plan.gates = GateMode::Steps;
                                if retry != "none" {
                                    // first serial scenario fails once (all of them for `delay2`)
                                    let infos = cfg.scen_infos();
                                    for i in infos.iter().filter(|i| i.has_tag(tagname)) {
                                        cfg.plan
                                            .outcomes
                                            .insert(i.calls[0].key.clone(), vec![Outcome::PanicString, Outcome::Pass]);
                                        if retry != "delay2" && retry != "delayboth" {
                                            break;
                                        }
                                    }
                                }
                                if retry == "delay" || retry == "delay2" || retry == "delayboth" {
                                    cfg.clock_budget = 1;
                                    cfg.clock_step = d + Duration::from_secs(1);
                                }
                                let gates = nconc
                                    + nser
                                    + match retry {
                                        "none" => 0,
                                        "delay2" | "delayboth" => nser,
                                        _ => 1,
                                    }
                                    + if lazy { cfg.feats.len() } else { 0 };
                                if gates > 5 {
                                    cfg.bound = Some(if tier == Tier::Quick { 2 } else { 3 });
                                }
                                cfg.max_execs = if tier == Tier::Quick { 3_000 } else { 200_000 };
                                cfg.name = format!(
                                    "serial/{place}|nc{nconc}|ns{nser}|c{conc:?}|{layout}|lazy{}|{retry}",
                                    u8::from(lazy)
                                );
                                if conc == Some(3) && place == "scenario" {
                                    // the same limit given as `--concurrency 3` over a builder limit of 1
                                    let mut o = cfg.clone();
                                    o.conc_builder = Some(Some(1));
                                    o.conc_cli = Some(3);
                                    o.name = format!("{}|cli-over-1", cfg.name);
                                    out.push(o);
                                }
                                out.push(cfg);
                            }
                        }
                    }
                }
            }
        }
    }
    // a custom classifier that decides by the scenario's shape (three own steps: serial), not
    // by tags, over features that carry no tag at all
    for nconc in 1..=2usize {
        for conc in [Some(2usize), Some(3), None] {
            for layout in ["same", "serial-first", "serial-last"] {
                for lazy in [false, true] {
                    let mut cfg = base(String::new());
                    let ser = vec![scen(&[], &[M, M, M])];
                    let con: Vec<ScenSpec> = (0..nconc).map(|_| scen(&[], &[M])).collect();
                    match layout {
                        "same" => {
                            let mut all = con.clone();
                            all.extend(ser);
                            cfg.feats = vec![feat(all)];
                        }
                        "serial-first" => cfg.feats = vec![feat(ser), feat(con)],
                        _ => cfg.feats = vec![feat(con), feat(ser)],
                    }
                    cfg.items = (0..cfg.feats.len()).map(Item::Feat).collect();
                    cfg.custom_which = true;
                    cfg.conc_builder = Some(conc);
                    cfg.lazy = lazy;
                    cfg.plan.gates = GateMode::Steps;
                    cfg.bound = Some(if tier == Tier::Quick { 2 } else { 3 });
                    cfg.max_execs = if tier == Tier::Quick { 3_000 } else { 200_000 };
                    cfg.name = format!("serial/custom-shape|nc{nconc}|c{conc:?}|{layout}|lazy{}", u8::from(lazy));
                    out.push(cfg);
                }
            }
        }
    }
    // rows of one Scenario Outline classified differently: the first row (untagged Examples
    // block) is concurrent, the second (block tagged @serial) is serial
    for conc in [Some(2usize), Some(3), None] {
        for lazy in [false, true] {
            let mut cfg = base(String::new());
            cfg.feats = vec![
                FeatSpec {
                    tags: vec!["outline-pair".into()],
                    scenarios: vec![scen(&[], &[M]), scen(&["serial"], &[M]), scen(&[], &[M])],
                    ..Default::default()
                },
                feat(vec![scen(&[], &[M])]),
            ];
            cfg.items = vec![Item::Feat(0), Item::Feat(1)];
            cfg.conc_builder = Some(conc);
            cfg.lazy = lazy;
            cfg.plan.gates = GateMode::Steps;
            cfg.bound = Some(if tier == Tier::Quick { 2 } else { 3 });
            cfg.max_execs = if tier == Tier::Quick { 3_000 } else { 200_000 };
            cfg.name = format!("serial/outline-rows|c{conc:?}|lazy{}", u8::from(lazy));
            out.push(cfg);
        }
    }
    out
}

// -------------------------------------------------------------- family retry

/// Retry chains with and without delay, next to a bystander (C05).
pub fn fam_retry(tier: Tier) -> Vec<Config> {
    let mut out = Vec::new();
    let d = Duration::from_secs(5);
    for n in 0..=2usize {
        for delay in [false, true] {
            for conc in [Some(1usize), Some(2)] {
                for serial in [false, true] {
                    for (before, after) in hooks4() {
                        for src in ["tag", "cli", "builder", "both"] {
                            let mut tags: Vec<String> = vec![];
                            if serial {
                                tags.push("serial".into());
                            }
                            let mut cfg = base(String::new());
                            match src {
                                "tag" => {
                                    if (n > 0 || delay) && serial {
                                        // a look-alike tag before the genuine one is an ordinary tag
                                        tags.push("retryable".into());
                                    }
                                    if n > 0 || delay {
                                        tags.push(if delay {
                                            format!("retry({n}).after(5s)")
                                        } else {
                                            format!("retry({n})")
                                        });
                                    }
                                }
                                "cli" => {
                                    if n > 0 {
                                        cfg.retries_cli = Some(n);
                                    }
                                    if delay {
                                        cfg.retry_after_cli = Some(d);
                                    }
                                }
                                "builder" => {
                                    if n > 0 {
                                        cfg.retries_builder = Some(n);
                                    }
                                    if delay {
                                        cfg.retry_after_builder = Some(d);
                                    }
                                }
                                _ => {
                                    // CLI must win over differing builder values
                                    if n == 0 {
                                        continue;
                                    }
                                    cfg.retries_cli = Some(n);
                                    cfg.retries_builder = Some(n + 1);
                                    if delay {
                                        cfg.retry_after_cli = Some(d);
                                        cfg.retry_after_builder = Some(Duration::from_secs(1));
                                    }
                                }
                            }
                            let tag_refs: Vec<&str> = tags.iter().map(String::as_str).collect();
                            cfg.feats = vec![
                                feat(vec![scen(&tag_refs, &[M, M])]),
                                feat(vec![scen(&[], &[M])]),
                            ];
                            // without a tag, CLI/builder retries apply to the bystander as well
                            cfg.items = vec![Item::Feat(0), Item::Feat(1)];
                            cfg.before = before;
                            cfg.after = after;
                            cfg.conc_builder = Some(conc);
                            cfg.plan.gates = GateMode::Steps;
                            if delay {
                                cfg.clock_budget = 2;
                                cfg.clock_step = Duration::from_secs(3);
                            }
                            let info = cfg.scen_infos()[0].clone();
                            let keys = callable_keys(&info, before, after);
                            // chains: fail^k at callable c, then pass / keep failing
                            let budget = crate::refm::scen_retry(&cfg, &info).map_or(0, |r| r.0);
                            for ci in 0..keys.len() {
                                for fails in 0..=(budget + 1) {
                                    if fails == 0 && ci > 0 {
                                        continue;
                                    }
                                    let chain: Vec<Fault> = if fails == 0 {
                                        vec![Fault::None]
                                    } else {
                                        (0..fails).map(|_| Fault::Call(ci, Outcome::PanicString)).collect()
                                    };
                                    let Some((outcomes, worlds)) =
                                        chain_plan(&info, before, after, &chain)
                                    else {
                                        continue;
                                    };
                                    let mut c = cfg.clone();
                                    c.plan.outcomes = outcomes;
                                    c.plan.world_new = worlds;
                                    let gates = 3 + fails * 2;
                                    if gates > 6 || delay {
                                        c.bound = Some(if tier == Tier::Quick { 2 } else { 3 });
                                    }
                                    c.max_execs = if tier == Tier::Quick { 2_000 } else { 200_000 };
                                    c.name = format!(
                                        "retry/n{n}|d{}|c{conc:?}|s{}|b{}a{}|{src}|c{ci}x{fails}",
                                        u8::from(delay),
                                        u8::from(serial),
                                        u8::from(before),
                                        u8::from(after)
                                    );
                                    out.push(c);
                                }
                            }
                        }
                    }
                }
            }
        }
    }
    // a composite retry filter whose tags sit on different levels (feature / rule / scenario):
    // it is evaluated over their union
    for (expr, ftag, rtag, stag, selected) in [
        ("@p and @q", "p", "", "q", true),
        ("@p and @q", "", "p", "q", true),
        ("@p and not @q", "p", "", "q", false),
        ("not @p", "p", "", "", false),
        ("@p and @q", "p", "", "", false),
    ] {
        let mut cfg = base(String::new());
        let t = |x: &str| if x.is_empty() { vec![] } else { vec![x.to_owned()] };
        cfg.feats = vec![FeatSpec {
            tags: t(ftag),
            rules: vec![RuleSpec { tags: t(rtag), bg: vec![], scenarios: vec![ScenSpec { tags: t(stag), steps: vec![M] }] }],
            ..Default::default()
        }];
        cfg.items = vec![Item::Feat(0)];
        cfg.retries_builder = Some(2);
        cfg.retry_filter_builder = Some(expr.to_owned());
        cfg.conc_builder = Some(Some(1));
        cfg.plan.gates = GateMode::None;
        let key = cfg.scen_infos()[0].calls[0].key.clone();
        cfg.plan.outcomes.insert(key, vec![Outcome::PanicString, Outcome::Pass]);
        cfg.max_execs = 20;
        let _ = selected;
        cfg.name = format!("retry/filter-levels|{expr}|f{ftag}|r{rtag}|s{stag}");
        out.push(cfg);
    }
    // a two-digit budget from a tag (`@retry(12)`, as the book writes `@retry(10)`): thirteen
    // attempts, numbered 0..=12
    for (tag, fails) in [("retry(12)", 13usize), ("retry(10).after(1s)", 3)] {
        let mut cfg = base(format!("retry/two-digit|{tag}"));
        cfg.feats = vec![feat(vec![scen(&[tag], &[M]), scen(&[], &[M])])];
        cfg.items = vec![Item::Feat(0)];
        cfg.conc_builder = Some(Some(1));
        cfg.plan.gates = GateMode::None;
        let key = cfg.scen_infos()[0].calls[0].key.clone();
        let mut o = vec![Outcome::PanicString; fails];
        o.push(Outcome::Pass);
        cfg.plan.outcomes.insert(key, o);
        cfg.clock_budget = 4;
        cfg.clock_step = Duration::from_secs(2);
        cfg.max_execs = 50;
        out.push(cfg);
    }
    // delays at the small end: below a millisecond (from a tag, the CLI and the builder) and
    // exactly one millisecond; a retry waits for them like for any other delay
    for (src, dur) in [("tag", 900u64), ("cli", 900), ("builder", 1), ("tag", 1000), ("cli", 1000)] {
        let mut cfg = base(format!("retry/tiny-delay|{src}|{dur}us"));
        let d = Duration::from_micros(dur);
        let tags: Vec<String> = if src == "tag" { vec![format!("retry(1).after({dur}us)")] } else { vec![] };
        cfg.feats = vec![feat(vec![ScenSpec { tags, steps: vec![M] }, scen(&[], &[M])])];
        cfg.items = vec![Item::Feat(0)];
        match src {
            "cli" => cfg.retry_after_cli = Some(d),
            "builder" => cfg.retry_after_builder = Some(d),
            _ => {}
        }
        cfg.conc_builder = Some(Some(2));
        cfg.plan.gates = GateMode::Steps;
        let key = cfg.scen_infos()[0].calls[0].key.clone();
        cfg.plan.outcomes.insert(key, vec![Outcome::PanicString, Outcome::Pass]);
        cfg.clock_budget = 2;
        cfg.clock_step = Duration::from_micros(600);
        cfg.max_execs = 500;
        out.push(cfg);
    }
    // an explicit budget of 0 on the builder (a configured value, not "unset"), with every
    // kind of limit, run directly and through a clone of the runner (even-length names)
    for conc in [None, Some(None), Some(Some(1usize)), Some(Some(2))] {
        for pad in ["", "_"] {
            let mut cfg = base(format!("retry/zero-budget|c{conc:?}{pad}"));
            cfg.feats = vec![feat(vec![scen(&[], &[M]), scen(&[], &[M])])];
            cfg.items = vec![Item::Feat(0)];
            cfg.retries_builder = Some(0);
            cfg.conc_builder = conc;
            cfg.plan.gates = GateMode::Steps;
            let key = cfg.scen_infos()[0].calls[0].key.clone();
            cfg.plan.outcomes.insert(key, vec![Outcome::PanicString, Outcome::Pass]);
            cfg.max_execs = 200;
            out.push(cfg);
        }
    }
    out
}

// ----------------------------------------------------------------- family ff

/// Fail-fast: the finally failing scenario at every position (C08).
pub fn fam_ff(tier: Tier) -> Vec<Config> {
    let mut out = Vec::new();
    let max_sc = if tier == Tier::Quick { 4 } else { 5 };
    for nsc in 2..=max_sc {
        for failing in 0..=nsc {
            // failing == nsc: nobody fails
            for conc in [Some(1usize), Some(2), Some(3)] {
                for retry in 0..=1usize {
                    for via_cli in [false, true] {
                        for err_at in [None, Some(0usize), Some(1)] {
                            for (after, sync, lazy) in [
                                (false, false, false),
                                (true, false, false),
                                (false, true, false),
                                (false, false, true),
                            ] {
                                let mut cfg = base(String::new());
                                cfg.lazy = lazy;
                                cfg.lazy_end = lazy;
                                let scs: Vec<ScenSpec> = (0..nsc).map(|_| scen(&[], &[M])).collect();
                                let (a, b) = scs.split_at(nsc / 2);
                                cfg.feats = vec![feat(a.to_vec()), feat(b.to_vec())];
                                let mut items = vec![Item::Feat(0), Item::Feat(1)];
                                if let Some(p) = err_at {
                                    items.insert(p, Item::Err(format!("e{p}")));
                                }
                                cfg.items = items;
                                cfg.after = after;
                                cfg.conc_builder = Some(conc);
                                if via_cli {
                                    cfg.fail_fast_cli = true;
                                } else {
                                    cfg.fail_fast_builder = true;
                                }
                                if retry > 0 {
                                    cfg.retries_builder = Some(retry);
                                }
                                // `sync`: nothing is gated, scenarios of one batch finish in lock-step
                                cfg.plan.gates = if sync { GateMode::None } else { GateMode::Steps };
                                let infos = cfg.scen_infos();
                                if failing < nsc {
                                    // fails on every attempt: final failure
                                    cfg.plan
                                        .outcomes
                                        .insert(infos[failing].calls[0].key.clone(), vec![Outcome::PanicString]);
                                    // another one fails once and passes on retry: must not trip
                                    if retry > 0 {
                                        let other = (failing + 1) % nsc;
                                        cfg.plan.outcomes.insert(
                                            infos[other].calls[0].key.clone(),
                                            vec![Outcome::PanicStr, Outcome::Pass],
                                        );
                                    }
                                } else if retry > 0 {
                                    cfg.plan.outcomes.insert(
                                        infos[0].calls[0].key.clone(),
                                        vec![Outcome::PanicStr, Outcome::Pass],
                                    );
                                }
                                if nsc + retry + usize::from(lazy) * 3 > 3 {
                                    cfg.bound = Some(if tier == Tier::Quick { 2 } else { 3 });
                                }
                                cfg.max_execs = if tier == Tier::Quick { 2_000 } else { 200_000 };
                                cfg.name = format!(
                                    "ff/n{nsc}|f{failing}|c{conc:?}|r{retry}|cli{}|e{err_at:?}|a{}|sync{}|lazy{}",
                                    u8::from(via_cli),
                                    u8::from(after),
                                    u8::from(sync),
                                    u8::from(lazy)
                                );
                                out.push(cfg);
                            }
                        }
                    }
                }
            }
        }
    }
    // every kind of final failure trips fail-fast, not only a panicking step
    // (`after-skip`: a skipped step plus a failing after hook)
    for kind in ["ambiguous", "before", "after", "after-skip", "world-err", "world-panic", "world-err-before", "world-panic-sync"] {
        for failing in 0..3usize {
            for conc in [Some(1usize), Some(2)] {
                for retry in 0..=1usize {
                    if kind.starts_with("world") && (failing != 0 || conc != Some(1)) {
                        // World::new outcomes are planned by global call index
                        continue;
                    }
                    let mut cfg = base(String::new());
                    let mut scs: Vec<ScenSpec> = (0..3).map(|_| scen(&[], &[M])).collect();
                    if kind == "ambiguous" {
                        scs[failing] = scen(&[], &[StepKind::Ambiguous, M]);
                    }
                    if kind == "after-skip" {
                        scs[failing] = scen(&[], &[StepKind::NoMatch, M]);
                    }
                    let (a, b) = scs.split_at(1);
                    cfg.feats = vec![feat(a.to_vec()), feat(b.to_vec())];
                    cfg.items = vec![Item::Feat(0), Item::Feat(1)];
                    cfg.before = kind == "before" || kind == "world-err-before";
                    cfg.after = kind.starts_with("after");
                    cfg.conc_builder = Some(conc);
                    cfg.fail_fast_builder = true;
                    if retry > 0 {
                        cfg.retries_builder = Some(retry);
                    }
                    cfg.plan.gates = GateMode::Steps;
                    let infos = cfg.scen_infos();
                    match kind {
                        "before" | "after" | "after-skip" => {
                            let hook = kind.split('-').next().unwrap_or(kind);
                            cfg.plan
                                .outcomes
                                .insert(format!("{hook} {}", infos[failing].name), vec![Outcome::PanicString]);
                        }
                        "world-err" => cfg.plan.world_new = vec![WOutcome::Err; retry + 1],
                        // (with a before hook, and a World that can never be created)
                        "world-err-before" => cfg.plan.world_new_rest = WOutcome::Err,
                        "world-panic" => cfg.plan.world_new = vec![WOutcome::Panic; retry + 1],
                        "world-panic-sync" => {
                            // the constructor panics when called (no before hook: created lazily)
                            cfg.plan.world_new = vec![WOutcome::Panic; retry + 1];
                            cfg.plan.sync_panics = true;
                        }
                        _ => {}
                    }
                    cfg.bound = Some(if tier == Tier::Quick { 2 } else { 3 });
                    cfg.max_execs = if tier == Tier::Quick { 2_000 } else { 100_000 };
                    cfg.name = format!("ff/kind-{kind}|f{failing}|c{conc:?}|r{retry}");
                    out.push(cfg);
                }
            }
        }
    }
    out
}

// -------------------------------------------------------------- family panic

/// Panics of every payload type / errors in every subset of callables of two
/// concurrently running scenarios (C10).
pub fn fam_panic(tier: Tier) -> Vec<Config> {
    let mut out = Vec::new();
    let opts: &[Option<Outcome>] = &[
        None,
        Some(Outcome::PanicString),
        Some(Outcome::PanicStr),
        Some(Outcome::PanicCustom),
        Some(Outcome::PanicOnThread),
    ];
    for world in [WOutcome::Ok, WOutcome::Err, WOutcome::Panic] {
        for (gates, sync) in [
            (GateMode::None, false),
            (GateMode::None, true),
            (GateMode::Steps, false),
            (GateMode::Steps, true),
            (GateMode::All, false),
        ] {
            if tier == Tier::Quick && gates == GateMode::All && world != WOutcome::Ok {
                continue;
            }
            if sync && world != WOutcome::Ok {
                continue;
            }
            for b in opts {
                for s in opts {
                    for a in opts {
                        for s2 in opts {
                            let mut cfg = base(String::new());
                            cfg.feats =
                                vec![feat(vec![scen(&[], &[M, M])]), feat(vec![scen(&[], &[M])])];
                            cfg.items = vec![Item::Feat(0), Item::Feat(1)];
                            cfg.before = true;
                            cfg.after = true;
                            cfg.conc_builder = Some(Some(2));
                            cfg.plan.gates = gates.clone();
                            cfg.plan.sync_panics = sync;
                            cfg.plan.world_new_rest = world;
                            let infos = cfg.scen_infos();
                            let mut ins = |k: String, o: &Option<Outcome>| {
                                if let Some(o) = o {
                                    cfg.plan.outcomes.insert(k, vec![*o]);
                                }
                            };
                            ins(format!("before {}", infos[0].name), b);
                            ins(infos[0].calls[1].key.clone(), s);
                            ins(format!("after {}", infos[0].name), a);
                            ins(infos[1].calls[0].key.clone(), s2);
                            ins(format!("after {}", infos[1].name), a);
                            if gates == GateMode::All {
                                cfg.bound = Some(if tier == Tier::Quick { 1 } else { 3 });
                            }
                            cfg.max_execs = if tier == Tier::Quick { 500 } else { 100_000 };
                            cfg.name = format!(
                                "panic/w{world:?}|g{gates:?}|sync{}|b{b:?}|s{s:?}|a{a:?}|s2{s2:?}",
                                u8::from(sync)
                            );
                            out.push(cfg);
                        }
                    }
                }
            }
        }
    }
    out
}

// ------------------------------------------------------------------ L1 family

/// Tiny configurations explored at poll granularity (releases after any poll).
pub fn fam_l1(tier: Tier) -> Vec<Config> {
    let mut out = Vec::new();
    let bound = if tier == Tier::Quick { 2 } else { 3 };
    for (before, after) in hooks4() {
        for conc in [Some(1usize), Some(2)] {
            for serial in [false, true] {
                for retry in [0usize, 1] {
                    for ff in [false, true] {
                        for lazy in [false, true] {
                            let mut cfg = base(String::new());
                            let mut t: Vec<&str> = vec![];
                            if serial {
                                t.push("serial");
                            }
                            cfg.feats =
                                vec![feat(vec![scen(&[], &[M, M])]), feat(vec![scen(&t, &[M])])];
                            cfg.items = vec![Item::Feat(0), Item::Feat(1)];
                            cfg.before = before;
                            cfg.after = after;
                            cfg.conc_builder = Some(conc);
                            cfg.fail_fast_builder = ff;
                            cfg.lazy = lazy;
                            cfg.plan.gates = GateMode::Steps;
                            cfg.gran = Gran::L1;
                            cfg.spurious = true;
                            cfg.bound = Some(bound);
                            if retry > 0 {
                                cfg.retries_cli = Some(1);
                                let infos = cfg.scen_infos();
                                cfg.plan.outcomes.insert(
                                    infos[0].calls[1].key.clone(),
                                    vec![Outcome::PanicString, Outcome::Pass],
                                );
                            }
                            cfg.max_execs = if tier == Tier::Quick { 6_000 } else { 400_000 };
                            cfg.name = format!(
                                "l1/b{}a{}|c{conc:?}|s{}|r{retry}|ff{}|lazy{}",
                                u8::from(before),
                                u8::from(after),
                                u8::from(serial),
                                u8::from(ff),
                                u8::from(lazy)
                            );
                            out.push(cfg);
                        }
                    }
                }
            }
        }
    }
    out
}

// ------------------------------------------------------------ family verdict

/// C01: outcome chains x skipped steps x `@allow.skipped` x parser errors.
pub fn fam_verdict(tier: Tier) -> Vec<Config> {
    let mut out = Vec::new();
    let perrs: &[Option<bool>] =
        if tier == Tier::Quick { &[None, Some(false)] } else { &[None, Some(false), Some(true)] };
    // (quick: fail-fast together with a parser error only)
    let ffs: &[bool] = &[false, true];
    for second in [M, StepKind::NoMatch, StepKind::Ambiguous] {
        for allow in ["none", "scenario", "rule", "feature", "feature-of-rule"] {
            if allow != "none" && second != StepKind::NoMatch {
                continue;
            }
            for n in 0..=2usize {
                for b_kind in [M, StepKind::NoMatch] {
                    for perr in perrs {
                        for (ff, lazy, swap) in
                            ffs.iter().flat_map(|f| [(f, false, false), (f, true, false), (f, false, true)])
                        {
                            if lazy && (perr.is_none() || n > 0) {
                                continue;
                            }
                            if *ff && tier == Tier::Quick && (perr.is_none() || n > 0 || swap) {
                                continue;
                            }
                            // `swap`: the retried scenario sits behind the bystander, so a
                            // normalizing writer holds its attempts back while the bystander runs
                            if swap && (n == 0 || allow != "none" || b_kind != M) {
                                continue;
                            }
                            let mut tags: Vec<String> = vec![];
                            if n > 0 {
                                tags.push(format!("retry({n})"));
                            }
                            if allow == "scenario" {
                                tags.push("allow.skipped".into());
                            }
                            let t = ScenSpec { tags, steps: vec![M, second] };
                            let f1 = if allow == "rule" || allow == "feature-of-rule" {
                                FeatSpec {
                                    tags: if allow == "rule" { vec![] } else { vec!["allow.skipped".into()] },
                                    rules: vec![RuleSpec {
                                        tags: if allow == "rule" { vec!["allow.skipped".into()] } else { vec![] },
                                        bg: vec![],
                                        scenarios: vec![t],
                                    }],
                                    ..Default::default()
                                }
                            } else {
                                FeatSpec {
                                    tags: if allow == "feature" { vec!["allow.skipped".into()] } else { vec![] },
                                    scenarios: vec![t],
                                    ..Default::default()
                                }
                            };
                            let mut cfg = base(String::new());
                            cfg.feats = if swap {
                                vec![feat(vec![scen(&[], &[b_kind])]), f1]
                            } else {
                                vec![f1, feat(vec![scen(&[], &[b_kind])])]
                            };
                            cfg.items = vec![Item::Feat(0), Item::Feat(1)];
                            match perr {
                                Some(false) => cfg.items.push(Item::Err("e-last".into())),
                                Some(true) => cfg.items.insert(0, Item::Err("e-first".into())),
                                None => {}
                            }
                            cfg.before = true;
                            cfg.after = true;
                            cfg.conc_builder = Some(Some(2));
                            cfg.fail_fast_builder = *ff;
                            // without hooks the World is created lazily by the first matched step:
                            // its failures travel as step failures (no captures, no location)
                            let nohooks_too = n >= 1 && allow == "none" && second == M && b_kind == M && !lazy && !swap;
                            cfg.lazy = lazy;
                            cfg.lazy_end = lazy;
                            if lazy {
                                cfg.bound = Some(1);
                            }
                            cfg.plan.gates = GateMode::Steps;
                            let info = cfg.scen_infos()[usize::from(swap)].clone();
                            let keys = callable_keys(&info, true, true);
                            let mut firsts = vec![Fault::None];
                            for (i, (_, kind)) in keys.iter().enumerate() {
                                if kind.is_none() || *kind == Some(M) {
                                    firsts.push(Fault::Call(i, Outcome::PanicString));
                                }
                            }
                            let ai = keys.len() - 1;
                            let mut chains: Vec<Vec<Fault>> = Vec::new();
                            for f0 in &firsts {
                                chains.push(vec![*f0]);
                                if n >= 1 && *f0 != Fault::None {
                                    for f1 in [Fault::None, *f0, Fault::Call(ai, Outcome::PanicStr), Fault::Call(0, Outcome::PanicStr)] {
                                        chains.push(vec![*f0, f1]);
                                        if n >= 2 && f1 != Fault::None {
                                            for f2 in [Fault::None, f1] {
                                                chains.push(vec![*f0, f1, f2]);
                                            }
                                        }
                                    }
                                }
                            }
                            chains.dedup();
                            if nohooks_too {
                                for wf in [Fault::WorldErr, Fault::WorldPanic] {
                                    for tail in [vec![Fault::None], vec![wf], vec![Fault::Call(0, Outcome::PanicString)]] {
                                        let mut chain = vec![wf];
                                        chain.extend(tail);
                                        let mut c = cfg.clone();
                                        c.before = false;
                                        c.after = false;
                                        let Some((outcomes, worlds)) = chain_plan(&info, false, false, &chain) else {
                                            continue;
                                        };
                                        c.plan.outcomes = outcomes;
                                        c.plan.world_new = worlds;
                                        c.conc_builder = Some(Some(1));
                                        c.max_execs = 200;
                                        c.name = format!("verdict/nohooks|n{n}|perr{perr:?}|ff{}|{chain:?}", u8::from(*ff));
                                        out.push(c);
                                    }
                                }
                            }
                            for chain in chains {
                                let Some((outcomes, worlds)) = chain_plan(&info, true, true, &chain) else {
                                    continue;
                                };
                                if nohooks_too && chain.len() == 2 {
                                    // the same with callables that panic while being called, before
                                    // they return their future
                                    let mut sp = cfg.clone();
                                    sp.plan.outcomes = outcomes.clone();
                                    sp.plan.world_new = worlds.clone();
                                    sp.plan.sync_panics = true;
                                    sp.max_execs = 200;
                                    sp.name = format!("verdict/syncpanic|n{n}|perr{perr:?}|ff{}|{chain:?}", u8::from(*ff));
                                    out.push(sp);
                                }
                                let mut c = cfg.clone();
                                c.plan.outcomes = outcomes;
                                c.plan.world_new = worlds;
                                c.max_execs = if swap { 400 } else { 200 };
                                c.name = format!(
                                    "verdict/{second:?}|allow-{allow}|n{n}|b{b_kind:?}|perr{perr:?}|ff{}|lazy{}|swap{}|{chain:?}",
                                    u8::from(*ff),
                                    u8::from(lazy),
                                    u8::from(swap)
                                );
                                out.push(c);
                            }
                        }
                    }
                }
            }
        }
    }
    // a @serial scenario whose delayed retry comes due while concurrent scenarios run: the
    // verdict follows its *last* attempt (which must happen)
    for passes in [true, false] {
        for stay in [1usize, 2] {
            let mut c = base(String::new());
            c.feats = vec![
                feat(vec![scen(&["serial", "retry(1).after(5s)"], &[M])]),
                feat((0..stay + 1).map(|_| scen(&[], &[M])).collect()),
            ];
            c.items = vec![Item::Feat(0), Item::Feat(1)];
            c.before = true;
            c.after = true;
            c.conc_builder = Some(Some(2));
            c.plan.gates = GateMode::Steps;
            c.clock_budget = 1;
            c.clock_step = Duration::from_secs(6);
            let infos = c.scen_infos();
            c.plan.outcomes.insert(
                infos[0].calls[0].key.clone(),
                if passes { vec![Outcome::PanicString, Outcome::Pass] } else { vec![Outcome::PanicString] },
            );
            c.bound = Some(2);
            c.max_execs = 600;
            c.name = format!("verdict/serial-delay|passes{}|stay{stay}", u8::from(passes));
            out.push(c);
        }
    }
    out
}

/// Poll-granular exploration (two releases before a poll, releases between
/// any two polls) of small fail-fast / serial / retry-delay / limit configs.
pub fn fam_l1x(tier: Tier) -> Vec<Config> {
    let mut out = Vec::new();
    let bound = 3;
    let cap = if tier == Tier::Quick { 30_000 } else { 600_000 };
    let finish = |mut c: Config, name: String, out: &mut Vec<Config>| {
        c.gran = Gran::L1;
        c.bound = Some(if tier == Tier::Quick { bound } else { 4 });
        c.max_execs = cap;
        c.plan.gates = GateMode::Steps;
        c.name = name;
        out.push(c);
    };
    // fail-fast
    for failing in 0..2usize {
        for conc in [Some(2usize), Some(3)] {
            let mut c = base(String::new());
            c.feats = vec![feat((0..4).map(|_| scen(&[], &[M])).collect())];
            c.items = vec![Item::Feat(0)];
            c.conc_builder = Some(conc);
            c.fail_fast_builder = true;
            let infos = c.scen_infos();
            c.plan.outcomes.insert(infos[failing].calls[0].key.clone(), vec![Outcome::PanicString]);
            finish(c, format!("l1x/ff|f{failing}|c{conc:?}"), &mut out);
        }
    }
    // serial next to concurrent ones, eager and lazy
    for lazy in [false, true] {
        for retry in [false, true] {
            let mut c = base(String::new());
            let mut t = vec!["serial"];
            if retry {
                t.push("retry(1)");
            }
            c.feats = vec![feat(vec![scen(&[], &[M]), scen(&[], &[M])]), feat(vec![scen(&t, &[M])])];
            c.items = vec![Item::Feat(0), Item::Feat(1)];
            c.conc_builder = Some(Some(2));
            c.lazy = lazy;
            if retry {
                let infos = c.scen_infos();
                c.plan.outcomes.insert(infos[2].calls[0].key.clone(), vec![Outcome::PanicString, Outcome::Pass]);
            }
            finish(c, format!("l1x/serial|lazy{}|r{}", u8::from(lazy), u8::from(retry)), &mut out);
        }
    }
    // delayed retry with the clock moving between polls
    for serial in [false, true] {
        let mut c = base(String::new());
        let mut t = vec!["retry(1).after(5s)"];
        if serial {
            t.push("serial");
        }
        c.feats = vec![feat(vec![scen(&t, &[M])]), feat(vec![scen(&[], &[M])])];
        c.items = vec![Item::Feat(0), Item::Feat(1)];
        c.conc_builder = Some(Some(2));
        c.clock_budget = 1;
        c.clock_step = Duration::from_secs(6);
        let infos = c.scen_infos();
        c.plan.outcomes.insert(infos[0].calls[0].key.clone(), vec![Outcome::PanicString, Outcome::Pass]);
        finish(c, format!("l1x/delay|s{}", u8::from(serial)), &mut out);
    }
    // limit
    for conc in [Some(1usize), Some(2)] {
        let mut c = base(String::new());
        c.feats = vec![feat((0..3).map(|_| scen(&[], &[M])).collect())];
        c.items = vec![Item::Feat(0)];
        c.conc_builder = Some(conc);
        finish(c, format!("l1x/conc|c{conc:?}"), &mut out);
    }
    out
}

/// C18 end to end: builder and CLI values that differ, nearest tags, filters;
/// what the runner really does (budget on the first event, delay, limit,
/// fail-fast) must be what the precedence of the statement resolves to.
pub fn fam_resolve(tier: Tier) -> Vec<Config> {
    let mut out = Vec::new();
    let s1 = Duration::from_secs(1);
    let s5 = Duration::from_secs(5);
    let thorough = tier == Tier::Thorough;
    let tags_alphabet: &[&str] = if thorough {
        &["", "retry(1)", "retry.after(5s)", "retry(2).after(1s)", "retry(0)"]
    } else {
        &["", "retry(1)", "retry.after(5s)"]
    };
    let mut fh: Vec<(Option<&str>, u8)> = vec![
        (None, 0u8),
        (Some("@x"), 0),
        (Some("not @x"), 0),
        // the builder's hook setters rebuild the runner: nothing may get lost
        (None, 1),
        (None, 2),
        (None, 3),
    ];
    if thorough {
        for f in [Some("@x"), Some("not @x")] {
            for h in 1..=3u8 {
                fh.push((f, h));
            }
        }
    }
    // where the retry tag and the filter's tag sit: on the scenario, or on the feature
    // of a scenario inside a rule
    let placements: &[bool] = if thorough { &[false, true] } else { &[false] };
    // (an explicit 0 is a configured value: it beats the default of one retry)
    for b_retry in [None, Some(1usize), Some(2), Some(0)] {
        for c_retry in [None, Some(1usize), Some(2), Some(0)] {
            for b_delay in [None, Some(s1), Some(s5)] {
                for c_delay in [None, Some(s5)] {
                    for tag in tags_alphabet {
                        for b_filter in [None, Some("@x"), Some("not @x")] {
                            for (c_filter, hooks) in &fh {
                                for inherited in placements {
                                    let (c_filter, hooks) = (*c_filter, *hooks);
                                    let mut c = base(String::new());
                                    c.before = hooks & 1 != 0;
                                    c.after = hooks & 2 != 0;
                                    let mut tags = vec!["x"];
                                    if !tag.is_empty() {
                                        tags.push(tag);
                                    }
                                    c.feats = if *inherited {
                                        vec![
                                            FeatSpec {
                                                tags: tags.iter().map(|t| (*t).to_owned()).collect(),
                                                rules: vec![RuleSpec {
                                                    tags: vec![],
                                                    bg: vec![],
                                                    scenarios: vec![scen(&[], &[M])],
                                                }],
                                                ..Default::default()
                                            },
                                            feat(vec![scen(&[], &[M])]),
                                        ]
                                    } else {
                                        vec![feat(vec![scen(&tags, &[M]), scen(&[], &[M])])]
                                    };
                                    c.items = (0..c.feats.len()).map(Item::Feat).collect();
                                    c.conc_builder = Some(Some(2));
                                    c.retries_builder = b_retry;
                                    c.retries_cli = c_retry;
                                    c.retry_after_builder = b_delay;
                                    c.retry_after_cli = c_delay;
                                    c.retry_filter_builder = b_filter.map(str::to_owned);
                                    c.retry_filter_cli = c_filter.map(str::to_owned);
                                    c.plan.gates = GateMode::Steps;
                                    let infos = c.scen_infos();
                                    // the first scenario always fails
                                    c.plan.outcomes.insert(infos[0].calls[0].key.clone(), vec![Outcome::PanicString]);
                                    c.bound = Some(1);
                                    c.max_execs = 300;
                                    c.name = format!(
                                        "resolve/R|b{b_retry:?}|c{c_retry:?}|bd{b_delay:?}|cd{c_delay:?}|t{tag}|bf{b_filter:?}|cf{c_filter:?}|h{hooks}|inh{}",
                                        u8::from(*inherited)
                                    );
                                    out.push(c);
                                }
                            }
                        }
                    }
                }
            }
        }
    }
    for b_conc in [None, Some(Some(1usize)), Some(Some(2)), Some(None)] {
        for c_conc in [None, Some(1usize), Some(2)] {
            for (ffb, ffc) in [(false, false), (true, false), (false, true)] {
                let mut c = base(String::new());
                c.feats = vec![feat((0..3).map(|_| scen(&[], &[M])).collect())];
                c.items = vec![Item::Feat(0)];
                c.conc_builder = b_conc;
                c.conc_cli = c_conc;
                c.fail_fast_builder = ffb;
                c.fail_fast_cli = ffc;
                c.plan.gates = GateMode::Steps;
                c.expect_conservation = !(ffb || ffc);
                let infos = c.scen_infos();
                c.plan.outcomes.insert(infos[0].calls[0].key.clone(), vec![Outcome::PanicString]);
                c.name = format!("resolve/K|b{b_conc:?}|c{c_conc:?}|ff{}{}", u8::from(ffb), u8::from(ffc));
                out.push(c);
            }
        }
    }
    // neighbours with equal own tags resolve independently: the tags a scenario inherits come
    // from its own rule / feature, not from the scenario written before it
    for (t1, t2) in [("retry(2)", ""), ("", "retry(2)"), ("retry(1)", "retry(3)"), ("x", "")] {
        for b_filter in [None, Some("@x")] {
            let mut c = base(String::new());
            let rule = |t: &str| RuleSpec {
                tags: if t.is_empty() { vec![] } else { vec![t.to_owned()] },
                bg: vec![],
                scenarios: vec![scen(&[], &[M])],
            };
            c.feats = vec![
                FeatSpec { rules: vec![rule(t1), rule(t2)], ..Default::default() },
                FeatSpec { tags: if t2.is_empty() { vec![] } else { vec![t2.to_owned()] }, scenarios: vec![scen(&[], &[M])], ..Default::default() },
            ];
            c.items = vec![Item::Feat(0), Item::Feat(1)];
            c.conc_builder = Some(Some(1));
            c.retries_builder = b_filter.map(|_| 1);
            c.retry_filter_builder = b_filter.map(str::to_owned);
            c.plan.gates = GateMode::None;
            let infos = c.scen_infos();
            for i in &infos {
                c.plan.outcomes.insert(i.calls[0].key.clone(), vec![Outcome::PanicString]);
            }
            c.max_execs = 50;
            c.name = format!("resolve/N|{t1}|{t2}|bf{b_filter:?}");
            out.push(c);
        }
    }
    // the resolved delay holds for serial scenarios as well, whatever else is queued: a failing
    // serial scenario next to a second serial (or a concurrent) one, delay from each source
    for src in ["tag", "cli", "builder", "cli-over-builder"] {
        for other_serial in [true, false] {
            for conc in [1usize, 2] {
                let mut c = base(String::new());
                let t1: Vec<&str> = if src == "tag" { vec!["serial", "retry(1).after(5s)"] } else { vec!["serial"] };
                let t2: Vec<&str> = if other_serial { vec!["serial"] } else { vec![] };
                c.feats = vec![feat(vec![scen(&t1, &[M]), scen(&t2, &[M]), scen(&t2, &[M])])];
                c.items = vec![Item::Feat(0)];
                c.conc_builder = Some(Some(conc));
                match src {
                    "cli" => c.retry_after_cli = Some(Duration::from_secs(5)),
                    "builder" => c.retry_after_builder = Some(Duration::from_secs(5)),
                    "cli-over-builder" => {
                        c.retry_after_cli = Some(Duration::from_secs(5));
                        c.retry_after_builder = Some(Duration::from_secs(1));
                    }
                    _ => {}
                }
                c.plan.gates = GateMode::Steps;
                let infos = c.scen_infos();
                c.plan.outcomes.insert(infos[0].calls[0].key.clone(), vec![Outcome::PanicString, Outcome::Pass]);
                c.bound = Some(2);
                c.max_execs = 300;
                c.name = format!("resolve/S|{src}|os{}|c{conc}", u8::from(other_serial));
                out.push(c);
            }
        }
    }
    // "`--fail-fast` adds to the builder settings" on the parser-error path as well:
    // whichever side asked for it, no feature is ingested after a parser error
    for (ffb, ffc) in [(false, false), (true, false), (false, true), (true, true)] {
        for lazy in [false, true] {
            let mut c = base(String::new());
            c.feats = vec![feat(vec![scen(&[], &[M])]), feat(vec![scen(&[], &[M])])];
            c.items = vec![Item::Feat(0), Item::Err("e1".into()), Item::Feat(1)];
            c.lazy = lazy;
            c.fail_fast_builder = ffb;
            c.fail_fast_cli = ffc;
            c.plan.gates = GateMode::Steps;
            c.bound = Some(2);
            c.max_execs = 300;
            c.name = format!("resolve/E|ff{}{}|lazy{}", u8::from(ffb), u8::from(ffc), u8::from(lazy));
            out.push(c);
        }
    }
    out
}

/// Several scenarios in the same state at the same moment: all failing (once or
/// finally), all retrying (immediately or after a delay), one of them serial.
pub fn fam_multi(tier: Tier) -> Vec<Config> {
    let mut out = Vec::new();
    for nsc in [3usize, 4] {
        if nsc == 4 && tier == Tier::Quick {
            continue;
        }
        for conc in [Some(1usize), Some(2), Some(3), None] {
            for delay in [false, true] {
                for serial_one in [false, true] {
                    for sync in [false, true] {
                        for fails in [1usize, 2] {
                            for (before, after) in [(false, false), (true, true)] {
                                let mut c = base(String::new());
                                let tag = if delay { "retry(1).after(5s)" } else { "retry(1)" };
                                let scs: Vec<ScenSpec> = (0..nsc)
                                    .map(|i| {
                                        if serial_one && i == 1 {
                                            scen(&[tag, "serial"], &[M])
                                        } else {
                                            scen(&[tag], &[M])
                                        }
                                    })
                                    .collect();
                                c.feats = vec![feat(scs)];
                                c.items = vec![Item::Feat(0)];
                                c.before = before;
                                c.after = after;
                                c.conc_builder = Some(conc);
                                c.plan.gates = if sync { GateMode::None } else { GateMode::Steps };
                                for i in c.scen_infos() {
                                    let mut v = vec![Outcome::PanicString; fails];
                                    v.push(Outcome::Pass);
                                    c.plan.outcomes.insert(i.calls[0].key.clone(), v);
                                }
                                if delay {
                                    c.clock_budget = 1;
                                    c.clock_step = Duration::from_secs(6);
                                }
                                c.bound = Some(if tier == Tier::Quick { 1 } else { 3 });
                                c.max_execs = if tier == Tier::Quick { 400 } else { 200_000 };
                                c.name = format!(
                                    "multi/n{nsc}|c{conc:?}|d{}|s{}|sync{}|f{fails}|b{}a{}",
                                    u8::from(delay),
                                    u8::from(serial_one),
                                    u8::from(sync),
                                    u8::from(before),
                                    u8::from(after)
                                );
                                out.push(c);
                            }
                        }
                    }
                }
            }
        }
    }
    out
}

/// The same feature (equal by value, separately parsed) delivered more than once.
pub fn fam_dup(tier: Tier) -> Vec<Config> {
    let mut out = Vec::new();
    for with_rule in [false, true] {
        for conc in [Some(1usize), Some(2), Some(3), None] {
            for lazy in [false, true] {
                for copies in [2usize, 3] {
                    for retry in [false, true] {
                        for sync in [false, true] {
                            if copies == 3 && tier == Tier::Quick && (lazy || retry) {
                                continue;
                            }
                            let mut c = base(String::new());
                            let s = || scen(&[], &[M]);
                            c.feats = vec![if with_rule {
                                FeatSpec {
                                    scenarios: vec![s()],
                                    rules: vec![RuleSpec { scenarios: vec![s(), s()], ..Default::default() }],
                                    ..Default::default()
                                }
                            } else {
                                feat(vec![s(), s()])
                            }];
                            c.items = (0..copies).map(|_| Item::Feat(0)).collect();
                            c.conc_builder = Some(conc);
                            c.lazy = lazy;
                            c.plan.gates = if sync { GateMode::None } else { GateMode::Steps };
                            if retry {
                                c.retries_builder = Some(1);
                                let infos = c.scen_infos();
                                // every copy shares the step text: the first two invocations fail
                                c.plan.outcomes.insert(
                                    infos[0].calls[0].key.clone(),
                                    vec![Outcome::PanicString, Outcome::PanicString, Outcome::Pass],
                                );
                            }
                            c.bound = Some(if tier == Tier::Quick { 2 } else { 3 });
                            c.max_execs = if tier == Tier::Quick { 1_500 } else { 200_000 };
                            c.name = format!(
                                "dup/rule{}|c{conc:?}|lazy{}|x{copies}|r{}|sync{}",
                                u8::from(with_rule),
                                u8::from(lazy),
                                u8::from(retry),
                                u8::from(sync)
                            );
                            if !retry && !lazy && copies == 2 {
                                // fail-fast cut while several value-equal features / rules are open:
                                // each of them still gets its Finished
                                let mut f = c.clone();
                                f.fail_fast_builder = true;
                                let infos = f.scen_infos();
                                f.plan.outcomes.insert(infos[0].calls[0].key.clone(), vec![Outcome::PanicString, Outcome::Pass]);
                                f.name = format!("{}|failfast", c.name);
                                // ... and with a serial scenario per copy: the concurrent ones of all
                                // copies go first, so several copies are open at the cut
                                let mut g = f.clone();
                                g.feats[0].scenarios.push(scen(&["serial"], &[M]));
                                g.name = format!("{}|failfast|serial", c.name);
                                out.push(f);
                                out.push(g);
                            }
                            out.push(c);
                        }
                    }
                }
            }
        }
    }
    out
}

// ---------------------------------------------------------------- family big

/// Larger, irregular runs explored with few deviations: three features, rules
/// with their own backgrounds, a 12-scenario feature (two-digit names), a
/// third retry, a delayed retry inside a rule, a serial scenario, an unmatched
/// and an ambiguous step; and the default / unlimited concurrency limits
/// observed with more than 64 ready scenarios.
pub fn fam_big(tier: Tier) -> Vec<Config> {
    let mut out = Vec::new();
    let limits: [(Option<Option<usize>>, Option<usize>); 5] =
        [(None, None), (Some(Some(1)), None), (Some(Some(3)), None), (Some(None), None), (Some(Some(5)), Some(2))];
    for (b, c) in limits {
        for hooks in [false, true] {
            for ff in [false, true] {
                for lazy in [false, true] {
                    for gated in [false, true] {
                        if gated && (lazy || b == Some(None) || (b, c) == (None, None)) {
                            continue;
                        }
                        let mut cfg = base(String::new());
                        let mut f1: Vec<ScenSpec> = (0..12).map(|_| scen(&[], &[M])).collect();
                        f1[3] = scen(&[], &[M, M, M]);
                        f1[6] = scen(&["serial"], &[M]);
                        f1[10] = scen(&["retry(3)"], &[M, M]);
                        f1[11] = scen(&[], &[M, StepKind::NoMatch, M]);
                        let r1 = RuleSpec { tags: vec![], bg: vec![M], scenarios: vec![scen(&[], &[]), scen(&[], &[M])] };
                        let r2 = RuleSpec {
                            tags: vec!["retry(3).after(2s)".into()],
                            bg: vec![M, M],
                            scenarios: vec![scen(&[], &[M]), scen(&[], &[M, M])],
                        };
                        // (its two rules share one name, or have none, in half of the configurations)
                        let ftags: Vec<String> = if hooks && ff {
                            vec!["twin-rules".into()]
                        } else if lazy && !ff {
                            vec!["unnamed-rules".into()]
                        } else {
                            vec![]
                        };
                        cfg.feats = vec![
                            FeatSpec { tags: ftags, bg: vec![M], scenarios: f1, rules: vec![r1, r2] },
                            FeatSpec {
                                tags: vec!["retry(2)".into()],
                                bg: vec![],
                                scenarios: vec![scen(&[], &[M]), scen(&[], &[StepKind::Ambiguous]), scen(&["serial"], &[M])],
                                rules: vec![],
                            },
                            feat(vec![scen(&[], &[M, M, M])]),
                        ];
                        cfg.items = vec![Item::Feat(0), Item::Err("e1".into()), Item::Feat(1), Item::Feat(2)];
                        cfg.lazy = lazy;
                        cfg.before = hooks;
                        cfg.after = hooks;
                        cfg.conc_builder = b;
                        cfg.conc_cli = c;
                        cfg.fail_fast_builder = ff;
                        cfg.plan.gates = if gated { GateMode::Steps } else { GateMode::None };
                        cfg.clock_budget = 3;
                        cfg.clock_step = Duration::from_secs(3);
                        let infos = cfg.scen_infos();
                        let p = Outcome::PanicString;
                        // F1.S11: fails three times at its last own step, passes the 4th attempt
                        let s11 = infos.iter().find(|i| i.name == "F1.S11").expect("S11");
                        cfg.plan.outcomes.insert(s11.calls.last().unwrap().key.clone(), vec![p, p, p, Outcome::Pass]);
                        // F1.R2.S2: fails all four attempts (final failure, delayed retries)
                        let r2s2 = infos.iter().find(|i| i.name == "F1.R2.S2").expect("R2.S2");
                        cfg.plan.outcomes.insert(r2s2.calls.last().unwrap().key.clone(), vec![p, p, p, p, Outcome::Pass]);
                        cfg.bound = Some(if gated { 1 } else if tier == Tier::Quick { 1 } else { 2 });
                        cfg.max_execs = if tier == Tier::Quick { 2_000 } else { 20_000 };
                        // (every second one: all features come from "the same file")
                        cfg.same_path = hooks == lazy;
                        cfg.name = format!(
                            "big/b{b:?}|c{c:?}|h{}|ff{}|lazy{}|g{}",
                            u8::from(hooks),
                            u8::from(ff),
                            u8::from(lazy),
                            u8::from(gated)
                        );
                        out.push(cfg);
                    }
                }
            }
        }
    }
    // the largest limits there are (`usize::MAX`, `isize::MAX`), from the builder and the CLI
    for (b, c) in [
        (Some(Some(usize::MAX)), None),
        (Some(Some(isize::MAX as usize)), None),
        (Some(Some(1)), Some(usize::MAX)),
        (None, Some(usize::MAX - 1)),
    ] {
        let mut cfg = base(format!("big/max-limit|b{b:?}|c{c:?}"));
        cfg.feats = vec![feat((0..3).map(|_| scen(&[], &[M])).collect()), feat(vec![scen(&["serial"], &[M])])];
        cfg.items = vec![Item::Feat(0), Item::Feat(1)];
        cfg.conc_builder = b;
        cfg.conc_cli = c;
        cfg.plan.gates = GateMode::Steps;
        cfg.bound = Some(1);
        cfg.max_execs = 200;
        out.push(cfg);
    }
    // default limit 64 / unlimited / a limit of 65 observed with 70 ready scenarios
    for (b, c) in [(None, None), (Some(None), None), (Some(Some(65)), None), (Some(Some(3)), Some(64))] {
        let mut cfg = base(format!("big/wide|b{b:?}|c{c:?}"));
        cfg.feats = vec![feat((0..70).map(|_| scen(&[], &[M])).collect())];
        cfg.items = vec![Item::Feat(0)];
        cfg.conc_builder = b;
        cfg.conc_cli = c;
        cfg.plan.gates = GateMode::Steps;
        cfg.bound = Some(0);
        cfg.max_execs = 3;
        cfg.expect_conservation = true;
        out.push(cfg);
    }
    out
}

// -------------------------------------------------------------- family order

/// The type-changing builder methods (`which_scenario`, `before`, `after`) in both
/// orders: whatever was configured before one of them must survive it.
pub fn fam_order(tier: Tier) -> Vec<Config> {
    let mut out = Vec::new();
    for (before, after, custom) in [
        (true, true, false),
        (true, false, true),
        (false, true, true),
        (true, true, true),
    ] {
        for reverse in [false, true] {
            for conc in [Some(1usize), Some(2)] {
                let mut cfg = base(String::new());
                let ser = if custom { "solo" } else { "serial" };
                cfg.feats = vec![
                    feat(vec![scen(&[ser, "x"], &[M, M]), scen(&[], &[M])]),
                    feat(vec![scen(&[], &[M])]),
                ];
                cfg.items = vec![Item::Feat(0), Item::Feat(1)];
                cfg.before = before;
                cfg.after = after;
                cfg.custom_which = custom;
                cfg.reverse_builder = reverse;
                cfg.conc_builder = Some(conc);
                cfg.retries_builder = Some(1);
                cfg.retry_filter_builder = Some("@x".into());
                cfg.plan.gates = GateMode::Steps;
                let infos = cfg.scen_infos();
                // the serial, filtered scenario fails once at its last step
                cfg.plan.outcomes.insert(infos[0].calls[1].key.clone(), vec![Outcome::PanicString, Outcome::Pass]);
                cfg.bound = Some(if tier == Tier::Quick { 2 } else { 3 });
                cfg.max_execs = if tier == Tier::Quick { 2_000 } else { 50_000 };
                cfg.name = format!(
                    "order/b{}a{}w{}|rev{}|c{conc:?}",
                    u8::from(before),
                    u8::from(after),
                    u8::from(custom),
                    u8::from(reverse)
                );
                // the same with a custom retry policy (`.retry_options(f)`) set before the hooks
                let mut pol = cfg.clone();
                pol.retry_policy = true;
                pol.retries_builder = None;
                pol.retry_filter_builder = None;
                pol.feats[0].scenarios[0].tags.push("pol".into());
                pol.plan.outcomes.clear();
                pol.plan.outcomes.insert(
                    infos[0].calls[1].key.clone(),
                    vec![Outcome::PanicString, Outcome::PanicString, Outcome::Pass],
                );
                pol.name = format!("{}|policy", cfg.name);
                // and with builder fail-fast (set before the type-changing methods) and a final failure
                let mut ff = cfg.clone();
                ff.fail_fast_builder = true;
                ff.retries_builder = None;
                ff.retry_filter_builder = None;
                ff.plan.outcomes.clear();
                ff.plan.outcomes.insert(infos[0].calls[1].key.clone(), vec![Outcome::PanicString]);
                ff.name = format!("{}|failfast", cfg.name);
                out.push(cfg);
                out.push(pol);
                out.push(ff);
            }
        }
    }
    out
}

pub fn family(name: &str, tier: Tier) -> Vec<Config> {
    match name {
        "seq" => fam_seq(tier),
        "frame" => fam_frame(tier),
        "conc" => fam_conc(tier),
        "serial" => fam_serial(tier),
        "retry" => fam_retry(tier),
        "ff" => fam_ff(tier),
        "panic" => fam_panic(tier),
        "l1" => fam_l1(tier),
        "verdict" => fam_verdict(tier),
        "l1x" => fam_l1x(tier),
        "resolve" => fam_resolve(tier),
        "multi" => fam_multi(tier),
        "dup" => fam_dup(tier),
        "big" => fam_big(tier),
        "order" => fam_order(tier),
        other => panic!("unknown family {other}"),
    }
}

/// Families that drive a property: its own sharp drivers first, then every
/// other family (all oracles are evaluated on every execution anyway, and a
/// defect often shows under a driver built for a neighbouring property).
pub fn families_for(prop: &str) -> Vec<&'static str> {
    let own: &[&str] = match prop {
        "C02" => &["seq", "l1"],
        "C03" => &["frame", "l1"],
        "C04" => &["frame", "retry", "l1"],
        "C05" => &["retry", "serial", "seq", "l1"],
        "C06" => &["conc", "serial", "l1"],
        "C07" => &["serial", "l1"],
        "C08" => &["ff", "l1"],
        "C09" => &["seq", "l1"],
        "C10" => &["panic", "seq"],
        other => panic!("no Engine A families for {other}"),
    };
    let mut v: Vec<&'static str> = own.to_vec();
    for f in ["seq", "frame", "conc", "serial", "retry", "ff", "panic", "l1", "l1x", "multi", "dup", "big", "order"] {
        if !v.contains(&f) {
            v.push(f);
        }
    }
    v
}
