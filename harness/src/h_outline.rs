//! C16: scenario outline expansion against a hand-written (regex-free) reference.

use cucumber::{feature::Ext as _, parser, Parser as _};
use futures::{FutureExt as _, StreamExt as _};
use gherkin::GherkinEnv;
use serde_json::json;

use crate::hist::ShardArgs;

pub const TEMPLATES: [&str; 13] = [
    "plain", "<a>", "<a><b>", "<a> and <a>", "x<a>y<b>z", "<zz>", "< a>", "<a", "a>", "<<a>>",
    // an unknown placeholder before / after / between resolvable ones
    "<zz> then <a>", "<a> then <zz>", "<a><zz><a>",
];
pub const VALUES: [&str; 9] = ["1", "", "<b>", "x>y", "$1", ".*", "<", "a b", "é"];

#[derive(Clone, Debug)]
pub struct Table {
    pub tagged: bool,
    pub cols: Vec<&'static str>,
    /// data rows (values per column)
    pub rows: Vec<Vec<&'static str>>,
}

#[derive(Clone, Debug)]
pub struct Case {
    pub in_rule: bool,
    pub tables: Vec<Table>,
    pub name_t: usize,
    pub step_t: usize,
    pub doc_t: Option<usize>,
    pub cell_t: Option<usize>,
    pub outline_tagged: bool,
    pub with_plain: bool,
    /// 0: outline `@o1 @o2`, table `@t<i>`; 1: the table's first tag equals the
    /// outline's last one; 2: a tag repeated back to back on both
    pub tag_mode: u8,
}

impl Case {
    pub fn text(&self) -> String {
        let ind = if self.in_rule { "    " } else { "  " };
        let mut s = String::from("Feature: outl\n");
        if self.in_rule {
            s += "  Rule: r\n";
        }
        if self.with_plain {
            s += &format!("{ind}Scenario: before <a>\n{ind}  Given keep <a>\n");
        }
        if self.outline_tagged {
            s += &format!("{ind}{}\n", if self.tag_mode == 2 { "@o1 @o1 @o2" } else { "@o1 @o2" });
        }
        // every spelling Gherkin has for an outline (a `Scenario:` / `Example:` followed by
        // an examples block is one as well), chosen by the other coordinates of the case
        let kw = ["Scenario Outline", "Scenario Template", "Scenario", "Example"]
            [(self.name_t + self.step_t + self.tables.len() + usize::from(self.tag_mode)) % 4];
        s += &format!("{ind}{kw}: n {}\n", TEMPLATES[self.name_t]);
        s += &format!("{ind}  Given s {}\n", TEMPLATES[self.step_t]);
        if let Some(d) = self.doc_t {
            s += &format!("{ind}    \"\"\"\n{ind}    doc {}\n{ind}    \"\"\"\n", TEMPLATES[d]);
        }
        if let Some(c) = self.cell_t {
            if self.doc_t.is_some() && self.in_rule {
                // the table follows the doc string of the same step
                s += &format!("{ind}    | h | {} |\n", TEMPLATES[c]);
            } else {
                s += &format!("{ind}  And t\n{ind}    | h | {} |\n", TEMPLATES[c]);
            }
        }
        for (i, t) in self.tables.iter().enumerate() {
            if t.tagged {
                s += &match self.tag_mode {
                    1 => format!("{ind}  @o2 @t{i}\n"),
                    2 => format!("{ind}  @t{i} @t{i} @o1\n"),
                    _ => format!("{ind}  @t{i}\n"),
                };
            }
            s += &format!("{ind}  {}:\n", if (i + self.name_t) % 2 == 0 { "Examples" } else { "Scenarios" });
            if t.cols.is_empty() {
                // an `Examples:` block without any table
                continue;
            }
            s += &format!("{ind}    | {} |\n", t.cols.join(" | "));
            for r in &t.rows {
                s += &format!("{ind}    | {} |\n", r.join(" | "));
            }
        }
        if self.with_plain {
            s += &format!("{ind}Scenario: after\n{ind}  Given keep <b>\n");
        }
        s
    }
}

/// Reference placeholder substitution: a scanner, no regex.
/// Returns the substituted text or the unknown placeholder names met.
pub fn substitute(text: &str, header: &[String], row: &[String]) -> Result<String, Vec<String>> {
    let chars: Vec<char> = text.chars().collect();
    let mut out = String::new();
    let mut unknown = Vec::new();
    let mut i = 0;
    while i < chars.len() {
        if chars[i] == '<' {
            // name: one or more chars that are neither '>' nor whitespace, then '>'
            let mut j = i + 1;
            while j < chars.len() && chars[j] != '>' && !chars[j].is_whitespace() {
                j += 1;
            }
            if j < chars.len() && chars[j] == '>' && j > i + 1 {
                let name: String = chars[i + 1..j].iter().collect();
                match header.iter().position(|h| *h == name) {
                    Some(c) => out += row.get(c).map_or("", String::as_str),
                    None => unknown.push(name),
                }
                i = j + 1;
                continue;
            }
        }
        out.push(chars[i]);
        i += 1;
    }
    if unknown.is_empty() {
        Ok(out)
    } else {
        Err(unknown)
    }
}

#[derive(Debug)]
pub enum Expect {
    Feature(Vec<ExpScen>, Vec<ExpScen>),
    Error(Vec<String>),
}

#[derive(Clone, Debug, PartialEq, Eq)]
pub struct ExpScen {
    pub name: String,
    pub tags: Vec<String>,
    pub steps: Vec<(String, Option<String>, Option<Vec<Vec<String>>>)>,
}

fn view(s: &gherkin::Scenario) -> ExpScen {
    ExpScen {
        name: s.name.clone(),
        tags: s.tags.clone(),
        steps: s
            .steps
            .iter()
            .map(|st| (st.value.clone(), st.docstring.clone(), st.table.as_ref().map(|t| t.rows.clone())))
            .collect(),
    }
}

/// Reference expansion of a list of scenarios, from the parsed (unexpanded) feature.
fn expand_list(list: &[gherkin::Scenario]) -> Result<Vec<ExpScen>, Vec<String>> {
    let mut out = Vec::new();
    for s in list {
        if s.examples.is_empty() {
            out.push(view(s));
            continue;
        }
        for ex in &s.examples {
            let Some(table) = ex.table.as_ref() else { continue };
            let Some((header, rows)) = table.rows.split_first() else { continue };
            for row in rows {
                let sub = |t: &str| substitute(t, header, row);
                let mut e = view(s);
                e.tags.extend(ex.tags.iter().cloned());
                e.name = sub(&e.name)?;
                for st in &mut e.steps {
                    st.0 = sub(&st.0)?;
                    if let Some(d) = &mut st.1 {
                        *d = sub(d)?;
                    }
                    if let Some(t) = &mut st.2 {
                        for r in t.iter_mut() {
                            for c in r.iter_mut() {
                                *c = sub(c)?;
                            }
                        }
                    }
                }
                out.push(e);
            }
        }
    }
    Ok(out)
}

pub fn reference(f: &gherkin::Feature) -> Expect {
    // rules first or top-level first: the statement does not order errors; collect any
    let mut unknown = Vec::new();
    let top = match expand_list(&f.scenarios) {
        Ok(v) => v,
        Err(u) => {
            unknown.extend(u);
            vec![]
        }
    };
    let mut ruled = Vec::new();
    for r in &f.rules {
        match expand_list(&r.scenarios) {
            Ok(v) => ruled.extend(v),
            Err(u) => unknown.extend(u),
        }
    }
    if unknown.is_empty() {
        Expect::Feature(top, ruled)
    } else {
        Expect::Error(unknown)
    }
}

/// All unknown placeholder names anywhere in outlines of the feature (any of
/// them may legitimately be the one named by the error).
fn all_unknown(f: &gherkin::Feature) -> Vec<String> {
    let mut names = Vec::new();
    let mut scan = |list: &[gherkin::Scenario]| {
        for s in list {
            for ex in &s.examples {
                let Some(table) = ex.table.as_ref() else { continue };
                let Some((header, rows)) = table.rows.split_first() else { continue };
                for row in rows {
                    let mut texts = vec![s.name.clone()];
                    for st in &s.steps {
                        texts.push(st.value.clone());
                        texts.extend(st.docstring.clone());
                        if let Some(t) = &st.table {
                            texts.extend(t.rows.iter().flatten().cloned());
                        }
                    }
                    for t in texts {
                        if let Err(u) = substitute(&t, header, row) {
                            names.extend(u);
                        }
                    }
                }
            }
        }
    };
    scan(&f.scenarios);
    for r in &f.rules {
        scan(&r.scenarios);
    }
    names
}

pub fn check(parsed: &gherkin::Feature) -> Option<String> {
    let got = parsed.clone().expand_examples();
    match (reference(parsed), got) {
        (Expect::Error(_), Err(e)) => {
            let any = all_unknown(parsed);
            if any.contains(&e.name) {
                None
            } else {
                Some(format!("error names <{}>, unknown placeholders are {any:?}", e.name))
            }
        }
        (Expect::Error(u), Ok(_)) => Some(format!("unknown placeholders {u:?} but expansion succeeded")),
        (Expect::Feature(..), Err(e)) => Some(format!("expansion failed with <{}> although every placeholder names a column", e.name)),
        (Expect::Feature(top, ruled), Ok(f)) => {
            let got_top: Vec<ExpScen> = f.scenarios.iter().map(view).collect();
            let got_ruled: Vec<ExpScen> = f.rules.iter().flat_map(|r| r.scenarios.iter().map(view)).collect();
            if got_top != top || got_ruled != ruled {
                return Some(format!(
                    "expanded scenarios differ\n  got:  {got_top:?} / {got_ruled:?}\n  want: {top:?} / {ruled:?}"
                ));
            }
            // pairwise distinct positions among the expanded scenarios of outlines
            let mut pos: Vec<(usize, usize)> = f
                .scenarios
                .iter()
                .chain(f.rules.iter().flat_map(|r| &r.scenarios))
                .filter(|s| !s.examples.is_empty())
                .map(|s| (s.position.line, s.position.col))
                .collect();
            let n = pos.len();
            pos.sort_unstable();
            pos.dedup();
            if pos.len() != n {
                return Some("two expanded scenarios share a position".into());
            }
            None
        }
    }
}

pub fn cases(thorough: bool) -> Vec<Case> {
    let mut tables: Vec<Vec<Table>> = Vec::new();
    let mk = |tagged, cols: Vec<&'static str>, rows: Vec<Vec<&'static str>>| Table { tagged, cols, rows };
    // one table: columns x rows x one varying value
    for tagged in [false, true] {
        tables.push(vec![mk(tagged, vec!["a"], vec![])]);
        tables.push(vec![mk(tagged, vec!["a", "b"], vec![])]);
        for v in VALUES {
            tables.push(vec![mk(tagged, vec!["a"], vec![vec![v]])]);
            tables.push(vec![mk(tagged, vec!["a"], vec![vec!["1"], vec![v]])]);
            tables.push(vec![mk(tagged, vec!["a", "b"], vec![vec![v, "2"]])]);
            tables.push(vec![mk(tagged, vec!["a", "b"], vec![vec!["1", v], vec![v, "4"]])]);
            tables.push(vec![mk(tagged, vec!["b", "a"], vec![vec![v, "k"]])]);
        }
    }
    // a block without a table: alone, before and after a block with rows
    tables.push(vec![mk(false, vec![], vec![])]);
    tables.push(vec![mk(true, vec![], vec![]), mk(false, vec!["a", "b"], vec![vec!["1", "2"], vec!["3", "4"]])]);
    tables.push(vec![mk(false, vec!["a", "b"], vec![vec!["1", "2"]]), mk(false, vec![], vec![]), mk(true, vec!["b", "a"], vec![vec!["5", "6"]])]);
    // two tables
    for v in if thorough { &VALUES[..] } else { &VALUES[..3] } {
        tables.push(vec![
            mk(false, vec!["a", "b"], vec![vec!["1", "2"], vec![v, "3"]]),
            mk(true, vec!["a", "b"], vec![vec![v, "9"]]),
        ]);
        tables.push(vec![mk(true, vec!["a"], vec![]), mk(false, vec!["a", "b"], vec![vec!["5", v]])]);
        tables.push(vec![mk(false, vec!["a", "b"], vec![vec![v, v]]), mk(false, vec!["a"], vec![vec!["7"]])]);
    }
    if thorough {
        // three tables, three columns, three rows, pairs of values, an empty value
        for v in VALUES {
            for w in VALUES {
                tables.push(vec![mk(false, vec!["a", "b"], vec![vec![v, w], vec![w, v], vec!["", v]])]);
                tables.push(vec![
                    mk(true, vec!["a", "b", "c"], vec![vec![v, w, "c1"]]),
                    mk(false, vec!["b", "a"], vec![vec![w, v], vec![v, ""]]),
                    mk(true, vec!["a", "b"], vec![vec!["r", w]]),
                ]);
            }
        }
    }
    let nt = TEMPLATES.len();
    let mut places: Vec<(usize, usize, Option<usize>, Option<usize>)> = Vec::new();
    for t in 0..nt {
        places.push((t, 0, None, None));
        places.push((0, t, None, None));
        places.push((0, 0, Some(t), None));
        places.push((0, 0, None, Some(t)));
        places.push((t, t, Some(t), Some(t)));
        if thorough {
            for t2 in 0..nt {
                places.push((t, t2, Some(t2), Some(t)));
            }
        }
    }
    places.sort();
    places.dedup();
    let mut out = Vec::new();
    for in_rule in [false, true] {
        for tb in &tables {
            for (n, s, d, c) in &places {
                for outline_tagged in [false, true] {
                    for with_plain in [false, true] {
                        if !thorough && outline_tagged != with_plain {
                            continue;
                        }
                        let any_tag = outline_tagged || tb.iter().any(|t| t.tagged);
                        for tag_mode in 0..3u8 {
                            // the tag variants matter on one placement of the templates only
                            if tag_mode > 0 && (!any_tag || (*n, *s, *d, *c) != (0, 0, None, None)) {
                                continue;
                            }
                            out.push(Case {
                                in_rule,
                                tables: tb.clone(),
                                name_t: *n,
                                step_t: *s,
                                doc_t: *d,
                                cell_t: *c,
                                outline_tagged,
                                with_plain,
                                tag_mode,
                            });
                        }
                    }
                }
            }
        }
    }
    out
}

/// A few cases through the real `parser::Basic` on files in a scratch dir.
fn through_files(cases: &[Case], a: &ShardArgs) -> (usize, Vec<String>) {
    let dir = std::env::temp_dir().join(format!("verif-c16-{}-{}", std::process::id(), a.si));
    let _ = std::fs::remove_dir_all(&dir);
    std::fs::create_dir_all(&dir).expect("scratch dir");
    let mut bad = Vec::new();
    let mut n = 0;
    for (k, c) in cases.iter().enumerate() {
        // the three ways `parser::Basic` finds a file: the file itself, its directory,
        // the `--input <glob>` option
        let (i, mode) = (k, k % 3);
        let sub = dir.join(format!("d{i}"));
        std::fs::create_dir_all(&sub).expect("scratch dir");
        let path = sub.join(format!("c{i}.feature"));
        std::fs::write(&path, c.text()).unwrap();
        let parsed = gherkin::Feature::parse(c.text(), GherkinEnv::default()).unwrap();
        let (input, cli) = match mode {
            0 => (path.clone(), cucumber::parser::basic::Cli::default()),
            1 => (sub.clone(), cucumber::parser::basic::Cli::default()),
            _ => (
                dir.clone(),
                cucumber::parser::basic::Cli {
                    features: Some(format!("{}/*.feature", sub.display()).parse().expect("glob")),
                },
            ),
        };
        let items: Vec<parser::Result<gherkin::Feature>> = cucumber::parser::Basic::new()
            .parse(input, cli)
            .collect::<Vec<_>>()
            .now_or_never()
            .expect("parser suspended");
        n += 1;
        let want = reference(&parsed);
        match (want, items.as_slice()) {
            (Expect::Error(_), [Err(parser::Error::ExampleExpansion(e))]) => {
                if !all_unknown(&parsed).contains(&e.name) {
                    bad.push(format!("file case {i}: error names <{}>", e.name));
                }
            }
            (Expect::Feature(top, ruled), [Ok(f)]) => {
                let got_top: Vec<ExpScen> = f.scenarios.iter().map(view).collect();
                let got_ruled: Vec<ExpScen> =
                    f.rules.iter().flat_map(|r| r.scenarios.iter().map(view)).collect();
                if got_top != top || got_ruled != ruled {
                    bad.push(format!("file case {i}: parser::Basic output differs from the reference"));
                }
            }
            (w, got) => bad.push(format!(
                "file case {i}: parser::Basic produced {} items ({}), reference {w:?}",
                got.len(),
                got.iter().map(|x| if x.is_ok() { "Ok" } else { "Err" }).collect::<Vec<_>>().join(",")
            )),
        }
    }
    let _ = std::fs::remove_dir_all(&dir);
    (n, bad)
}

pub fn run(a: &ShardArgs) -> serde_json::Value {
    let cs = cases(a.thorough);
    let mut evaluations = 0usize;
    let mut nontrivial = std::collections::HashSet::new();
    let mut violations = Vec::new();
    let mut samples = Vec::new();
    let mut skipped = 0usize;
    let mut expanded_total = 0usize;
    let mut errors_total = 0usize;
    let mut file_cases = Vec::new();
    for (i, c) in cs.iter().enumerate() {
        if !a.mine(i) {
            continue;
        }
        if i % 1024 == 0 && a.out_of_time() {
            skipped += 1;
        }
        if skipped > 0 {
            skipped += 1;
            continue;
        }
        let text = c.text();
        let parsed = match gherkin::Feature::parse(&text, GherkinEnv::default()) {
            Ok(f) => f,
            Err(e) => {
                violations.push(json!({"engine":"hist","property":"C16","tier":a.tier,"key":"generator","case_index":i,
                    "message": format!("generated text does not parse: {e}\n{text}")}));
                continue;
            }
        };
        evaluations += 1;
        match reference(&parsed) {
            Expect::Feature(t, r) => expanded_total += t.len() + r.len(),
            Expect::Error(_) => errors_total += 1,
        }
        if c.tables.iter().any(|t| !t.rows.is_empty()) {
            nontrivial.insert(text.clone());
        }
        if let Some(msg) = check(&parsed) {
            if violations.len() < 30 {
                violations.push(json!({
                    "engine": "hist", "property": "C16", "tier": a.tier, "key": "expansion",
                    "case_index": i, "message": msg, "text": text,
                }));
            }
        }
        if file_cases.len() < 40 && i % 53 == 0 {
            file_cases.push(c.clone());
        }
        if samples.len() < 2 && c.tables.len() == 2 && c.name_t == 4 {
            samples.push(json!({"feature_text": text}));
        }
    }
    let (nfiles, bad_files) = through_files(&file_cases, a);
    for b in bad_files {
        violations.push(json!({"engine":"hist","property":"C16","tier":a.tier,"key":"parser-basic","case_index":0,"message":b}));
    }
    json!({
        "property": "C16", "tier": a.tier,
        "total_configs": cs.len(), "configs_done": evaluations, "configs_skipped_budget": skipped,
        "evaluations": evaluations + nfiles, "distinct_nontrivial": nontrivial.len(),
        "rule": "generated feature texts: outline top-level/in rule x Examples tables (1-2, tagged or not, columns a/b in both orders, 0-2 data rows, header only, values from {1,<b>,x>y,$1,.*,<,a b,é}) x placeholder templates in name / step text / doc string / table cell; parsed by gherkin, expanded by Ext::expand_examples (and a subset through parser::Basic on files, found as a file, through its directory and through --input <glob>); non-trivial = at least one data row",
        "exhaustive": skipped == 0,
        "details": {"expanded_scenarios_checked": expanded_total, "error_cases": errors_total, "through_parser_basic_files": nfiles},
        "violations": violations, "samples": samples,
    })
}

pub fn replay(j: &serde_json::Value) -> i32 {
    let thorough = j["tier"].as_str() == Some("thorough");
    let cs = cases(thorough);
    let c = &cs[j["case_index"].as_u64().unwrap() as usize];
    let text = c.text();
    println!("{text}");
    let parsed = gherkin::Feature::parse(&text, GherkinEnv::default()).unwrap();
    match check(&parsed) {
        Some(m) => {
            println!("violation C16: {m}");
            1
        }
        None => {
            println!("holds");
            0
        }
    }
}
