//! Deterministic executor of the real runner + stateless DFS explorer.

use std::{
    cell::{Cell, RefCell},
    collections::HashSet,
    hash::{Hash, Hasher},
    panic::{self, AssertUnwindSafe},
    sync::{
        atomic::{AtomicBool, Ordering},
        Arc,
    },
    task::{Context as TaskCx, Poll, Wake, Waker},
    time::Duration,
};

use cucumber::verif as cv;
use futures::{future::LocalBoxFuture, FutureExt as _, StreamExt as _};

use crate::{
    canon::{self, Ev},
    hs::{self, LogEntry, HS},
    spec::{Config, EvStream, Gran},
};

/// Polls without any observable change after which a self-waking task is
/// treated as quiescent.
pub const K_NOPROGRESS: usize = 4;
/// Self-waking polls without any observable change after which a run with no
/// enabled transition is declared stuck.
pub const STUCK_AFTER_NOPROGRESS: usize = 300;
/// Hard cap on outer polls per execution.
pub const POLL_HORIZON: usize = 20_000;
/// Hard cap on transitions per execution.
pub const TRANSITION_HORIZON: usize = 5_000;
/// Idle turns (H4) inside one poll after which the runner is declared spinning.
pub const IDLE_LIMIT: u64 = 2_000;

/// Calls of the sentinel panic hook on any thread of the process.
static SENTINEL_ANY_THREAD: std::sync::atomic::AtomicUsize = std::sync::atomic::AtomicUsize::new(0);

thread_local! {
    /// Events recorded by subjects, waiting to be stamped by the executor.
    static PENDING: RefCell<Vec<Ev>> = const { RefCell::new(Vec::new()) };
    /// Calls of the sentinel panic hook.
    static SENTINEL: Cell<usize> = const { Cell::new(0) };
    /// Identity of the sentinel hook that fired last (every execution installs its own).
    static SENTINEL_FIRED: Cell<usize> = const { Cell::new(0) };
    static SENTINEL_SEQ: Cell<usize> = const { Cell::new(0) };
    /// Every item of the current execution is kept alive until it ends, so that a
    /// `Source` address is never reused within one execution (pointer identity is
    /// the only way to tell equal-by-value entities apart).
    static KEEPALIVE: RefCell<Vec<crate::spec::RawItem>> = const { RefCell::new(Vec::new()) };
}

pub fn keep_alive(item: &crate::spec::RawItem) {
    KEEPALIVE.with(|k| k.borrow_mut().push(item.clone()));
}

pub fn record_event(ev: Ev) {
    PENDING.with(|p| p.borrow_mut().push(ev));
    HS.with(|h| {
        let mut h = h.borrow_mut();
        h.events_seen += 1;
        h.progress += 1;
    });
}

#[derive(Clone, Debug)]
pub struct TEv {
    pub ev: Ev,
    pub poll: usize,
    pub vtime: Duration,
    /// Number of decisions taken before this event was pulled.
    pub decision: usize,
    /// Number of quiescent points seen before this event was pulled.
    pub epoch: usize,
}

#[derive(Clone, Debug, PartialEq, Eq)]
pub enum Anomaly {
    EscapedPanic(String),
    IdleSpin(u64),
    PollHorizon,
    /// Not ended, nothing enabled. `self_waking`: the task keeps waking itself.
    Stuck { self_waking: bool },
    PrefixDivergence(String),
}

#[derive(Clone, Debug, PartialEq, Eq)]
pub enum Opt {
    Poll,
    Release(usize, String),
    /// Advance to the earliest virtual timer.
    AdvanceTimer(Duration),
    /// Free advance by the configured step (budgeted).
    AdvanceFree(Duration),
    Spurious,
}

#[derive(Clone, Debug)]
pub struct Decision {
    pub n_opts: usize,
    pub chosen: usize,
    pub what: Opt,
    pub quiescent: bool,
    /// events pulled so far
    pub at_event: usize,
}

pub enum SubjPoll {
    Item,
    Pending,
    Done,
}

pub trait Subject {
    fn poll(&mut self, cx: &mut TaskCx<'_>) -> SubjPoll;
}

/// The raw `runner::Basic` stream; every item is canonicalised and optionally
/// handed to a sink (writers under test).
pub struct StreamSubject {
    pub stream: EvStream,
    pub sink: Option<Box<dyn FnMut(crate::spec::RawItem)>>,
}

impl Subject for StreamSubject {
    fn poll(&mut self, cx: &mut TaskCx<'_>) -> SubjPoll {
        match self.stream.poll_next_unpin(cx) {
            Poll::Ready(Some(item)) => {
                // (observed through a clone, as the left arm of a `Tee` would see it)
                record_event(canon::canon(&item.clone()));
                keep_alive(&item);
                if let Some(s) = self.sink.as_mut() {
                    s(item);
                }
                SubjPoll::Item
            }
            Poll::Ready(None) => SubjPoll::Done,
            Poll::Pending => SubjPoll::Pending,
        }
    }
}

/// Any future (e.g. the real `Cucumber::run()` pipeline).
pub struct FutureSubject(pub LocalBoxFuture<'static, ()>);

impl Subject for FutureSubject {
    fn poll(&mut self, cx: &mut TaskCx<'_>) -> SubjPoll {
        match self.0.poll_unpin(cx) {
            Poll::Ready(()) => SubjPoll::Done,
            Poll::Pending => SubjPoll::Pending,
        }
    }
}

struct Flag(AtomicBool);
impl Wake for Flag {
    fn wake(self: Arc<Self>) {
        self.0.store(true, Ordering::SeqCst);
    }
    fn wake_by_ref(self: &Arc<Self>) {
        self.0.store(true, Ordering::SeqCst);
    }
}

#[derive(Debug, Default)]
pub struct Trace {
    pub events: Vec<TEv>,
    pub log: Vec<LogEntry>,
    pub ended: bool,
    pub anomalies: Vec<Anomaly>,
    /// Only the points with >= 2 options.
    pub decisions: Vec<Decision>,
    pub state_hashes: Vec<u64>,
    pub polls: usize,
    pub noprogress_polls: usize,
    pub transitions: usize,
    /// Sentinel panic-hook calls observed while the run was in progress.
    pub sentinel_during: usize,
    /// Whether the sentinel hook was back in place after the stream ended.
    pub hook_restored: Option<bool>,
    /// Event count at every quiescent point.
    pub quiescent_at: Vec<usize>,
    /// Virtual time at every quiescent point.
    pub quiescent_vtime: Vec<Duration>,
    /// Gates still armed when the execution stopped.
    pub armed_at_end: Vec<String>,
    pub timers_at_end: usize,
    pub final_vtime: Duration,
}

impl Trace {
    pub fn schedule(&self) -> Vec<usize> {
        self.decisions.iter().map(|d| d.chosen).collect()
    }
    pub fn outcome_hash(&self) -> u64 {
        // Runs of consecutive Rule/Feature `Finished` events come out of a
        // `HashMap::drain()` (fail-fast epilogue): order-insensitive.
        self.outcome_hash_ignoring_log_text()
    }
    /// Like `outcome_hash()`, with the text of `Log` events (timestamps) left out.
    pub fn outcome_hash_ignoring_log_text(&self) -> u64 {
        let mut acc = 0u64;
        for e in &self.events {
            match &e.ev {
                Ev::Sc { f, r, s, ptrs, retries, ev: crate::canon::ScEv::Log(_) } => {
                    acc = roll(acc, (f, r, s, ptrs, retries, "log"));
                }
                ev => acc = fold_event(acc, ev),
            }
        }
        roll(acc, self.ended)
    }
    pub fn render(&self) -> Vec<String> {
        self.events
            .iter()
            .map(|e| format!("p{} t{:?} {}", e.poll, e.vtime, e.ev.short()))
            .collect()
    }
}

/// Installs a fresh sentinel panic hook and returns its identity: the hook in place
/// after a run must be *this* one, not the sentinel of an earlier run in the process.
fn install_sentinel() -> usize {
    SENTINEL.with(|s| s.set(0));
    let id = SENTINEL_SEQ.with(|s| {
        s.set(s.get() + 1);
        s.get()
    });
    SENTINEL_ANY_THREAD.store(0, Ordering::SeqCst);
    panic::set_hook(Box::new(move |_| {
        // (user code may panic on a helper thread: count across threads)
        SENTINEL_ANY_THREAD.fetch_add(1, Ordering::SeqCst);
        SENTINEL.with(|s| s.set(s.get() + 1));
        SENTINEL_FIRED.with(|s| s.set(id));
    }));
    id
}

fn fold_event(acc: u64, ev: &Ev) -> u64 {
    if matches!(ev, Ev::FeatFinished(_) | Ev::RuleFinished(..)) {
        acc.wrapping_add(roll(0x9e37, ev))
    } else {
        roll(acc, ev)
    }
}

fn roll(h: u64, x: impl Hash) -> u64 {
    let mut hasher = std::collections::hash_map::DefaultHasher::new();
    h.hash(&mut hasher);
    x.hash(&mut hasher);
    hasher.finish()
}

/// Runs one execution: replays `prefix`, then takes option 0 everywhere.
pub fn execute(
    cfg: &Config,
    make: &dyn Fn(&Config) -> Box<dyn Subject>,
    prefix: &[usize],
) -> Trace {
    hs::reset(cfg.plan.clone());
    PENDING.with(|p| p.borrow_mut().clear());
    KEEPALIVE.with(|k| k.borrow_mut().clear());
    cv::clock_enable();
    cv::idle_limit(IDLE_LIMIT);

    let mut tr = Trace::default();
    let flag = Arc::new(Flag(AtomicBool::new(true)));
    let waker = Waker::from(Arc::clone(&flag));
    // the run is built first (a lazy stream / future: nothing of it executes yet), the
    // sentinel hook is installed after that and before the first poll: it is the hook "in
    // place before the run" which must be silent during it and back afterwards
    let mut subject = Some(make(cfg));
    let sentinel_id = install_sentinel();

    let mut noprog = 0usize;
    let mut clock_budget = cfg.clock_budget;
    let mut spurious_budget = usize::from(cfg.spurious);
    let mut ev_hash = roll(0, &cfg.name);
    let mut log_hashed = 0usize;
    let mut n_decisions_total = 0usize;
    let mut aborted = false;
    let mut ptr_ids: std::collections::HashMap<usize, usize> = std::collections::HashMap::new();

    loop {
        if tr.ended || aborted {
            break;
        }
        let woken = flag.0.load(Ordering::SeqCst);
        let quiescent = !woken || noprog >= cfg.k_noprogress;
        if quiescent {
            tr.quiescent_at.push(tr.events.len());
            tr.quiescent_vtime.push(cv::clock_offset().unwrap_or_default());
        }

        let mut opts: Vec<Opt> = Vec::new();
        let releases = || -> Vec<Opt> {
            // canonical order (by label): independent of the order in which gates got armed
            let mut v: Vec<(String, usize)> =
                hs::armed_gates().into_iter().map(|g| (hs::gate_label(g), g)).collect();
            v.sort();
            v.into_iter().map(|(l, g)| Opt::Release(g, l)).collect()
        };
        let advances = |budget: usize| -> Vec<Opt> {
            let mut v = Vec::new();
            let now = cv::clock_offset().unwrap_or_default();
            let mut timers = cv::clock_timers();
            timers.sort();
            if let Some(t) = timers.first() {
                // a real sleeper wakes strictly after its deadline
                v.push(Opt::AdvanceTimer(t.saturating_sub(now) + Duration::from_nanos(1)));
            }
            if budget > 0 {
                v.push(Opt::AdvanceFree(cfg.clock_step));
            }
            v
        };
        match cfg.gran {
            Gran::L0 => {
                if quiescent {
                    opts.extend(releases());
                    opts.extend(advances(clock_budget));
                } else {
                    opts.push(Opt::Poll);
                }
            }
            Gran::L1 => {
                if !quiescent {
                    opts.push(Opt::Poll);
                }
                opts.extend(releases());
                opts.extend(advances(clock_budget));
                if quiescent && spurious_budget > 0 && !opts.is_empty() {
                    opts.push(Opt::Spurious);
                }
            }
        }
        if opts.is_empty() {
            // nothing to release or advance: a task that keeps waking itself gets a long
            // grace period before it is declared stuck (the K-polls rule is only a
            // heuristic for *when to offer choices*, never a verdict)
            if woken && noprog < STUCK_AFTER_NOPROGRESS {
                opts.push(Opt::Poll);
            } else {
                tr.anomalies.push(Anomaly::Stuck { self_waking: woken });
                break;
            }
        }

        let chosen = if opts.len() >= 2 {
            let idx = tr.decisions.len();
            let c = if idx < prefix.len() { prefix[idx] } else { 0 };
            if c >= opts.len() {
                tr.anomalies.push(Anomaly::PrefixDivergence(format!(
                    "decision {idx}: choice {c} of {} options {opts:?}",
                    opts.len()
                )));
                break;
            }
            // state hash
            let (log_len, h_log) = HS.with(|h| {
                let h = h.borrow();
                let mut acc = 0u64;
                for e in &h.log[log_hashed..] {
                    acc = roll(acc, format!("{:?}", e.kind));
                }
                (h.log.len(), acc)
            });
            ev_hash = roll(ev_hash, h_log);
            log_hashed = log_len;
            let st = roll(
                ev_hash,
                (
                    hs::armed_gates().iter().map(|g| hs::gate_label(*g)).collect::<Vec<_>>(),
                    cv::clock_offset(),
                    woken,
                    quiescent,
                ),
            );
            tr.state_hashes.push(st);
            tr.decisions.push(Decision {
                n_opts: opts.len(),
                chosen: c,
                what: opts[c].clone(),
                quiescent,
                at_event: tr.events.len(),
            });
            c
        } else {
            0
        };
        n_decisions_total += 1;
        tr.transitions += 1;
        if tr.transitions >= TRANSITION_HORIZON {
            tr.anomalies.push(Anomaly::PollHorizon);
            break;
        }

        match &opts[chosen] {
            Opt::Release(g, label) => {
                hs::log(hs::LogKind::Released(label.clone()));
                hs::release_gate(*g);
                noprog = 0;
            }
            Opt::AdvanceTimer(d) => {
                cv::clock_advance(*d);
                noprog = 0;
            }
            Opt::AdvanceFree(d) => {
                clock_budget = clock_budget.saturating_sub(1);
                cv::clock_advance(*d);
                noprog = 0;
            }
            o @ (Opt::Poll | Opt::Spurious) => {
                if *o == Opt::Spurious {
                    spurious_budget -= 1;
                    noprog = 0;
                }
                // one outer poll
                HS.with(|h| h.borrow_mut().poll += 1);
                cv::idle_reset();
                flag.0.store(false, Ordering::SeqCst);
                let before = HS.with(|h| h.borrow().progress);
                let mut cx = TaskCx::from_waker(&waker);
                let subj = subject.as_mut().expect("subject");
                let res = panic::catch_unwind(AssertUnwindSafe(|| subj.poll(&mut cx)));
                tr.polls += 1;
                match res {
                    Err(p) => {
                        if let Some(s) = p.downcast_ref::<cv::IdleSpin>() {
                            tr.anomalies.push(Anomaly::IdleSpin(s.0));
                        } else {
                            let info: cucumber::event::Info = Arc::from(p);
                            tr.anomalies.push(Anomaly::EscapedPanic(canon::payload(&info)));
                        }
                        aborted = true;
                    }
                    Ok(SubjPoll::Item) => flag.0.store(true, Ordering::SeqCst),
                    Ok(SubjPoll::Pending) => {}
                    Ok(SubjPoll::Done) => tr.ended = true,
                }
                // stamp events
                let poll = HS.with(|h| h.borrow().poll);
                let vt = cv::clock_offset().unwrap_or_default();
                let pend: Vec<Ev> = PENDING.with(|p| std::mem::take(&mut *p.borrow_mut()));
                for mut ev in pend {
                    if let Ev::Sc { ptrs, .. } = &mut ev {
                        for p in [&mut ptrs.0, &mut ptrs.1, &mut ptrs.2] {
                            if *p != 0 {
                                let n = ptr_ids.len() + 1;
                                *p = *ptr_ids.entry(*p).or_insert(n);
                            }
                        }
                    }
                    ev_hash = fold_event(ev_hash, &ev);
                    tr.events.push(TEv {
                        ev,
                        poll,
                        vtime: vt,
                        decision: n_decisions_total,
                        epoch: tr.quiescent_at.len(),
                    });
                }
                let after = HS.with(|h| h.borrow().progress);
                if after == before {
                    noprog += 1;
                    tr.noprogress_polls += 1;
                } else {
                    noprog = 0;
                }
                if tr.polls >= POLL_HORIZON {
                    tr.anomalies.push(Anomaly::PollHorizon);
                    break;
                }
            }
        }
    }

    if tr.decisions.len() < prefix.len() {
        tr.anomalies.push(Anomaly::PrefixDivergence(format!(
            "execution has {} decisions, prefix {}",
            tr.decisions.len(),
            prefix.len()
        )));
    }
    tr.sentinel_during = SENTINEL_ANY_THREAD.load(Ordering::SeqCst);
    if tr.ended {
        // Probe: is the hook installed before the run in place again?
        let before = SENTINEL.with(Cell::get);
        SENTINEL_FIRED.with(|s| s.set(0));
        let _ = panic::catch_unwind(|| panic::panic_any(0u8));
        let after = SENTINEL.with(Cell::get);
        tr.hook_restored = Some(after == before + 1 && SENTINEL_FIRED.with(Cell::get) == sentinel_id);
    }
    drop(subject.take());
    // restore a quiet hook of our own for whatever follows
    panic::set_hook(Box::new(|_| {}));
    tr.armed_at_end = hs::armed_gates().into_iter().map(hs::gate_label).collect();
    tr.timers_at_end = cv::clock_timers().len();
    tr.final_vtime = cv::clock_offset().unwrap_or_default();
    tr.log = HS.with(|h| std::mem::take(&mut h.borrow_mut().log));
    cv::clock_disable();
    cv::idle_limit(0);
    tr
}

#[derive(Debug, Default)]
pub struct ExploreStats {
    pub execs: usize,
    pub transitions: usize,
    pub states: HashSet<u64>,
    pub outcomes: HashSet<u64>,
    pub max_decisions: usize,
    pub capped: bool,
    pub divergences: usize,
}

/// Stateless DFS with an optional deviation bound.
/// `visit` returns `false` to stop exploring this configuration.
pub fn explore(
    cfg: &Config,
    make: &dyn Fn(&Config) -> Box<dyn Subject>,
    max_execs: usize,
    stats: &mut ExploreStats,
    visit: &mut dyn FnMut(&Trace) -> bool,
) {
    let mut stack: Vec<Vec<usize>> = vec![Vec::new()];
    let mut execs_here = 0usize;
    while let Some(prefix) = stack.pop() {
        if execs_here >= max_execs {
            stats.capped = true;
            break;
        }
        let tr = execute(cfg, make, &prefix);
        execs_here += 1;
        stats.execs += 1;
        stats.transitions += tr.transitions;
        stats.states.extend(tr.state_hashes.iter().copied());
        stats.outcomes.insert(tr.outcome_hash());
        stats.max_decisions = stats.max_decisions.max(tr.decisions.len());
        if !visit(&tr) {
            break;
        }
        if tr.anomalies.iter().any(|a| matches!(a, Anomaly::PrefixDivergence(_))) {
            stats.divergences += 1;
            eprintln!("DIVERGENCE in {} replaying prefix {:?}: {:?}", cfg.name, prefix, tr.anomalies);
            continue;
        }
        let sched = tr.schedule();
        let devs_prefix = prefix.iter().filter(|c| **c != 0).count();
        // children: deviate at a point at/after the prefix end
        let mut children = Vec::new();
        for i in prefix.len()..tr.decisions.len() {
            if let Some(b) = cfg.bound {
                if devs_prefix + 1 > b {
                    break;
                }
            }
            for alt in 1..tr.decisions[i].n_opts {
                let mut child = sched[..i].to_vec();
                child.push(alt);
                children.push(child);
            }
        }
        // simplest (earliest deviation) explored first
        children.reverse();
        stack.extend(children);
    }
}

pub fn stream_subject(cfg: &Config) -> Box<dyn Subject> {
    Box::new(StreamSubject { stream: crate::spec::build_stream(cfg), sink: None })
}
