//! C01: the run verdict through the real `Cucumber::run()` / `run_and_exit()`
//! pipeline with the built-in statistics writer stacks.

use std::{
    cell::RefCell,
    io,
    panic::AssertUnwindSafe,
    rc::Rc,
};

use cucumber::{
    cli, parser,
    runner::{self, Basic},
    writer::{self, Coloring, Libtest, Stats as _},
    Cucumber, Runner, World as _, WriterExt as _,
};
use futures::{stream::LocalBoxStream, FutureExt as _, StreamExt as _};

use crate::{
    canon::{self, Ev, HookEv, ScEv, StepEv},
    exec::{self, FutureSubject, Subject, Trace},
    hs::{self, TW},
    oracles::Violation,
    spec::{self, Config, RawItem},
};

/// Memory sink shared between the writer and the harness.
#[derive(Clone, Debug, Default)]
pub struct SharedBuf(pub Rc<RefCell<Vec<u8>>>);

impl io::Write for SharedBuf {
    fn write(&mut self, buf: &[u8]) -> io::Result<usize> {
        // like a pipe or a socket, the sink takes only part of a large buffer per call:
        // writers must not rely on one `write()` consuming everything
        let n = buf.len().min(61);
        self.0.borrow_mut().extend_from_slice(&buf[..n]);
        Ok(n)
    }
    fn flush(&mut self) -> io::Result<()> {
        Ok(())
    }
}

impl SharedBuf {
    pub fn text(&self) -> String {
        String::from_utf8_lossy(&self.0.borrow()).into_owned()
    }
}

/// Harness parser: ignores its input, delivers the configuration's items.
#[derive(Clone)]
pub struct HParser(pub Config);

impl cucumber::Parser<()> for HParser {
    type Cli = cli::Empty;
    type Output = LocalBoxStream<'static, parser::Result<gherkin::Feature>>;
    fn parse(self, _input: (), _cli: cli::Empty) -> Self::Output {
        spec::parser_stream(&self.0)
    }
}

/// Records every item at the runner -> writer boundary.
pub struct SpyRunner<R>(pub R);

impl<R> Runner<TW> for SpyRunner<R>
where
    R: Runner<TW>,
    R::EventStream: 'static,
{
    type Cli = R::Cli;
    type EventStream = LocalBoxStream<'static, RawItem>;
    fn run<S>(self, features: S, cli: Self::Cli) -> Self::EventStream
    where
        S: futures::Stream<Item = parser::Result<gherkin::Feature>> + 'static,
    {
        self.0
            .run(features, cli)
            .inspect(|item| {
                exec::record_event(canon::canon(item));
                exec::keep_alive(item);
            })
            .boxed_local()
    }
}

#[derive(Clone, Copy, Debug, PartialEq, Eq)]
pub enum Base {
    /// `Summarize<Normalize<Basic>>`
    SumBasic,
    /// `Normalize<Libtest>`
    Libtest,
    /// `Or<Summarize<Normalize<Basic>>, Normalize<Libtest>, const true>`
    OrLeft,
    /// the same with a constant `false` predicate
    OrRight,
    /// `Tee<Summarize<Normalize<Basic>>, Normalize<Libtest>>`
    Tee,
    /// `Normalize<Tee<Summarize<Basic>, discard::Stats<Basic>>>`: the right side counts nothing
    TeeZeroRight,
    /// `Normalize<Tee<discard::Stats<Basic>, Summarize<Basic>>>`: the left side counts nothing
    TeeZeroLeft,
}

#[derive(Clone, Copy, Debug, PartialEq, Eq)]
pub enum Wrap {
    None,
    FailOnSkipped,
    RepeatFailed,
    RepeatSkipped,
    /// `FailOnSkipped<Repeat<..>>`
    FosRepeatFailed,
}

#[derive(Clone, Copy, Debug, PartialEq, Eq)]
pub struct Stack {
    pub base: Base,
    pub wrap: Wrap,
    /// through `run_and_exit()` (panic = failed) instead of `run()`
    pub exit_path: bool,
}

impl Stack {
    pub fn fail_on_skipped(self) -> bool {
        matches!(self.wrap, Wrap::FailOnSkipped | Wrap::FosRepeatFailed)
    }
    pub fn all() -> Vec<Stack> {
        let mut v = Vec::new();
        for base in [
            Base::SumBasic,
            Base::Libtest,
            Base::OrLeft,
            Base::OrRight,
            Base::Tee,
            Base::TeeZeroRight,
            Base::TeeZeroLeft,
        ] {
            for wrap in [
                Wrap::None,
                Wrap::FailOnSkipped,
                Wrap::RepeatFailed,
                Wrap::RepeatSkipped,
                Wrap::FosRepeatFailed,
            ] {
                for exit_path in [false, true] {
                    v.push(Stack { base, wrap, exit_path });
                }
            }
        }
        v
    }
}

#[derive(Clone, Debug, Default)]
pub struct PipeResult {
    /// `execution_has_failed()` of the returned writer / panic of `run_and_exit()`
    pub failed: Option<bool>,
    pub counters: Option<(usize, usize, usize, usize, usize, usize)>,
    pub basic_out: String,
    pub libtest_out: String,
}

thread_local! {
    pub static RESULT: RefCell<PipeResult> = RefCell::new(PipeResult::default());
}

/// Builds the runner exactly as Engine A does (hooks / classifier / builder order as the
/// configuration says) and drives the pipeline with it.
fn drive<Wr>(cfg: Config, writer: Wr, wcli: Wr::Cli, exit_path: bool) -> futures::future::LocalBoxFuture<'static, ()>
where
    Wr: writer::Stats<TW> + writer::Normalized + 'static,
    Wr::Cli: Clone,
{
    use cucumber::runner::Basic;
    spec::with_runner!(&cfg, |r| drive_with(cfg.clone(), r, writer, wcli, exit_path).boxed_local())
}

async fn drive_with<R, Wr>(cfg: Config, runner: R, writer: Wr, wcli: Wr::Cli, exit_path: bool)
where
    R: Runner<TW, Cli = runner::basic::Cli> + 'static,
    R::EventStream: 'static,
    Wr: writer::Stats<TW> + writer::Normalized + 'static,
    Wr::Cli: Clone,
{
    // a third of the configurations narrow the run by a `--name` and a third by a `--tags`
    // filter that accept every scenario: the run, parser errors included, is the same
    let opts = cli::Opts {
        re_filter: (cfg.name.len() % 3 == 0).then(|| regex::Regex::new("^F").expect("regex")),
        tags_filter: (cfg.name.len() % 3 == 1).then(|| "not @no-such-tag".parse().expect("tag expression")),
        parser: cli::Empty,
        runner: spec::runner_cli(&cfg),
        writer: wcli,
        custom: cli::Empty,
    };
    let c = Cucumber::<TW, HParser, (), SpyRunner<R>, Wr, cli::Empty>::custom(
        HParser(cfg.clone()),
        SpyRunner(runner),
        writer,
    )
    .with_cli(opts);
    if exit_path {
        let res = AssertUnwindSafe(c.run_and_exit(())).catch_unwind().await;
        RESULT.with(|r| r.borrow_mut().failed = Some(res.is_err()));
    } else {
        let w = c.run(()).await;
        RESULT.with(|r| {
            let mut r = r.borrow_mut();
            r.failed = Some(w.execution_has_failed());
            r.counters = Some((
                w.passed_steps(),
                w.skipped_steps(),
                w.failed_steps(),
                w.retried_steps(),
                w.parsing_errors(),
                w.hook_errors(),
            ));
        });
    }
}

type SumBasic = writer::Summarize<writer::Normalize<TW, writer::Basic<SharedBuf>>>;
type NormLibtest = writer::Normalize<TW, Libtest<TW, SharedBuf>>;

fn sum_basic(buf: &SharedBuf) -> SumBasic {
    writer::Basic::raw(buf.clone(), Coloring::Never, 0).normalized().summarized()
}

fn norm_libtest(buf: &SharedBuf) -> NormLibtest {
    Libtest::new(buf.clone())
}

fn basic_cli() -> writer::basic::Cli {
    writer::basic::Cli { verbose: 0, color: Coloring::Never }
}

fn libtest_cli() -> writer::libtest::Cli {
    writer::libtest::Cli::default()
}

macro_rules! wrap_and_drive {
    ($cfg:expr, $stack:expr, $w:expr, $cli:expr) => {{
        let (cfg, stack) = ($cfg, $stack);
        let w = $w;
        let cli = $cli;
        match stack.wrap {
            Wrap::None => drive(cfg, w, cli, stack.exit_path),
            Wrap::FailOnSkipped => drive(cfg, w.fail_on_skipped(), cli, stack.exit_path),
            Wrap::RepeatFailed => drive(cfg, w.repeat_failed(), cli, stack.exit_path),
            Wrap::RepeatSkipped => drive(cfg, w.repeat_skipped(), cli, stack.exit_path),
            Wrap::FosRepeatFailed => {
                drive(cfg, w.repeat_failed().fail_on_skipped(), cli, stack.exit_path)
            }
        }
    }};
}

thread_local! {
    static BUFS: RefCell<(SharedBuf, SharedBuf)> = RefCell::new(Default::default());
}

pub fn subject(cfg: &Config, stack: Stack) -> Box<dyn Subject> {
    RESULT.with(|r| *r.borrow_mut() = PipeResult::default());
    let bbuf = SharedBuf::default();
    let lbuf = SharedBuf::default();
    BUFS.with(|b| *b.borrow_mut() = (bbuf.clone(), lbuf.clone()));
    let cfg = cfg.clone();
    let fut = match stack.base {
        Base::SumBasic => wrap_and_drive!(cfg, stack, sum_basic(&bbuf), basic_cli()),
        Base::Libtest => wrap_and_drive!(cfg, stack, norm_libtest(&lbuf), libtest_cli()),
        Base::OrLeft => wrap_and_drive!(
            cfg,
            stack,
            writer::Or::new(
                sum_basic(&bbuf),
                norm_libtest(&lbuf),
                (|_, _| true) as fn(&RawItem, &cli::Compose<writer::basic::Cli, writer::libtest::Cli>) -> bool
            ),
            cli::Compose { left: basic_cli(), right: libtest_cli() }
        ),
        Base::OrRight => wrap_and_drive!(
            cfg,
            stack,
            writer::Or::new(
                sum_basic(&bbuf),
                norm_libtest(&lbuf),
                (|_, _| false) as fn(&RawItem, &cli::Compose<writer::basic::Cli, writer::libtest::Cli>) -> bool
            ),
            cli::Compose { left: basic_cli(), right: libtest_cli() }
        ),
        Base::Tee => wrap_and_drive!(
            cfg,
            stack,
            writer::Tee::new(sum_basic(&bbuf), norm_libtest(&lbuf)),
            cli::Compose { left: basic_cli(), right: libtest_cli() }
        ),
        Base::TeeZeroRight => wrap_and_drive!(
            cfg,
            stack,
            writer::Tee::new(
                writer::Basic::raw(bbuf.clone(), Coloring::Never, 0).summarized(),
                writer::Basic::raw(lbuf.clone(), Coloring::Never, 0).discard_stats_writes()
            )
            .normalized::<TW>(),
            cli::Compose { left: basic_cli(), right: basic_cli() }
        ),
        Base::TeeZeroLeft => wrap_and_drive!(
            cfg,
            stack,
            writer::Tee::new(
                writer::Basic::raw(lbuf.clone(), Coloring::Never, 0).discard_stats_writes(),
                writer::Basic::raw(bbuf.clone(), Coloring::Never, 0).summarized()
            )
            .normalized::<TW>(),
            cli::Compose { left: basic_cli(), right: basic_cli() }
        ),
    };
    Box::new(FutureSubject(fut))
}

pub fn take_result() -> PipeResult {
    let mut r = RESULT.with(|r| r.borrow().clone());
    BUFS.with(|b| {
        let b = b.borrow();
        r.basic_out = b.0.text();
        r.libtest_out = b.1.text();
    });
    r
}

/// The verdict the property defines, computed from the items that crossed the
/// runner -> writer boundary.
pub fn expected_verdict(cfg: &Config, tr: &Trace, fail_on_skipped: bool) -> (bool, String) {
    let infos = cfg.scen_infos();
    // the last attempt of every scenario that appears in the stream
    let mut last_attempt: std::collections::BTreeMap<&str, usize> = std::collections::BTreeMap::new();
    for te in &tr.events {
        if let Ev::Sc { s, retries, .. } = &te.ev {
            let cur = retries.map_or(0, |r| r.0);
            let e = last_attempt.entry(s.as_str()).or_insert(cur);
            *e = (*e).max(cur);
        }
    }
    // "a parser error was delivered": what the parser handed over counts, whether or not
    // the runner forwarded it
    for l in &tr.log {
        if let crate::hs::LogKind::ParserDeliver(i) = l.kind {
            if let Some(crate::spec::Item::Err(e)) = cfg.items.get(i) {
                return (true, format!("parser error {e} was delivered by the parser"));
            }
        }
    }
    for te in &tr.events {
        match &te.ev {
            Ev::ParseErr(e) => return (true, format!("parser error {e}")),
            Ev::Sc { s, retries, ev, .. } => {
                // "failed finally": no retry left according to the counter, or — whatever
                // the counter says — no later attempt of this scenario ever happened
                let cur = retries.map_or(0, |r| r.0);
                let last = retries.is_none_or(|(_, left)| left == 0)
                    || last_attempt.get(s.as_str()) == Some(&cur);
                match ev {
                    ScEv::Step(_, t, _, StepEv::Failed(..)) if last => {
                        return (true, format!("step '{t}' of {s} failed in its last attempt"));
                    }
                    ScEv::Hook(k, HookEv::Failed(..)) if last => {
                        return (true, format!("{k:?} hook of {s} failed in its last attempt"));
                    }
                    ScEv::Step(_, t, _, StepEv::Skipped) if fail_on_skipped => {
                        let allowed = infos
                            .iter()
                            .find(|i| i.name == *s)
                            .is_some_and(|i| i.has_tag("allow.skipped"));
                        if !allowed {
                            return (true, format!("step '{t}' of {s} skipped under fail_on_skipped"));
                        }
                    }
                    _ => {}
                }
            }
            _ => {}
        }
    }
    (false, "nothing failed finally".into())
}

fn libtest_suite_verdict(out: &str) -> Option<bool> {
    let mut verdict = None;
    for line in out.lines() {
        if let Ok(j) = serde_json::from_str::<serde_json::Value>(line) {
            if j["type"] == "suite" {
                match j["event"].as_str() {
                    Some("ok") => verdict = Some(false),
                    Some("failed") => verdict = Some(true),
                    _ => {}
                }
            }
        }
    }
    verdict
}

pub fn check(cfg: &Config, stack: Stack, tr: &Trace, res: &PipeResult) -> Vec<Violation> {
    let mut out = Vec::new();
    // a panic escaping `run()` kills the test binary: that is a run reported failed
    let escaped = tr.anomalies.iter().find_map(|a| match a {
        crate::exec::Anomaly::EscapedPanic(p) => Some(p.clone()),
        _ => None,
    });
    if !tr.ended && escaped.is_none() {
        return out;
    }
    let (want, why) = expected_verdict(cfg, tr, stack.fail_on_skipped());
    if let Some(p) = &escaped {
        if !want {
            out.push(Violation {
                prop: "C01",
                key: "pipeline-panicked".into(),
                msg: format!("stack {stack:?}: the pipeline panicked ({p}) but {why}"),
            });
        }
        return out;
    }
    match res.failed {
        None => out.push(Violation {
            prop: "C01",
            key: "no-verdict".into(),
            msg: "pipeline finished without a verdict".into(),
        }),
        Some(got) if got != want => out.push(Violation {
            prop: "C01",
            key: if got { "false-failure".into() } else { "missed-failure".into() },
            msg: format!(
                "stack {stack:?}: run reported {} but {why}",
                if got { "FAILED" } else { "ok" }
            ),
        }),
        _ => {}
    }
    // the libtest suite line is the verdict of the Libtest writer alone
    let libtest_sees_all = matches!(stack.base, Base::Libtest | Base::Tee | Base::OrRight);
    if libtest_sees_all {
        match libtest_suite_verdict(&res.libtest_out) {
            None => out.push(Violation {
                prop: "C01",
                key: "libtest-no-suite-line".into(),
                msg: format!("stack {stack:?}: no suite result line in libtest output"),
            }),
            Some(got) if got != want => out.push(Violation {
                prop: "C01",
                key: if got { "libtest-false-failure".into() } else { "libtest-missed-failure".into() },
                msg: format!(
                    "stack {stack:?}: libtest suite line says {} but {why}",
                    if got { "failed" } else { "ok" }
                ),
            }),
            _ => {}
        }
    }
    out
}

pub fn _unused() {
    let _ = TW::new;
}
