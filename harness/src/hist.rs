//! Engine B entry points: bounded-exhaustive histories / inputs through the
//! real sequential components against reference models.

use std::time::Instant;

use serde_json::json;

pub struct ShardArgs {
    pub prop: String,
    pub tier: String,
    pub thorough: bool,
    pub si: usize,
    pub sn: usize,
    pub seed: usize,
    pub out: String,
    pub heartbeat: Option<String>,
    pub budget_s: f64,
    pub t0: Instant,
}

impl ShardArgs {
    pub fn mine(&self, n: usize) -> bool {
        (n + self.seed) % self.sn == self.si
    }
    pub fn out_of_time(&self) -> bool {
        self.t0.elapsed().as_secs_f64() > self.budget_s
    }
    pub fn beat(&self, what: &str) {
        if let Some(hb) = &self.heartbeat {
            let _ = std::fs::write(hb, what);
        }
    }
}

fn arg(args: &[String], name: &str) -> Option<String> {
    args.iter().position(|a| a == name).and_then(|i| args.get(i + 1).cloned())
}

pub fn parse_args(args: &[String]) -> ShardArgs {
    let tier = arg(args, "--tier").unwrap_or_else(|| "quick".into());
    let shard = arg(args, "--shard").unwrap_or_else(|| "0/1".into());
    let (si, sn) = shard.split_once('/').unwrap();
    ShardArgs {
        prop: arg(args, "--prop").expect("--prop"),
        thorough: tier == "thorough",
        tier,
        si: si.parse().unwrap(),
        sn: sn.parse().unwrap(),
        seed: arg(args, "--seed").and_then(|s| s.parse().ok()).unwrap_or(0),
        out: arg(args, "--out").expect("--out"),
        heartbeat: arg(args, "--heartbeat"),
        budget_s: arg(args, "--budget").and_then(|s| s.parse().ok()).unwrap_or(1e9),
        t0: Instant::now(),
    }
}

fn c11(a: &ShardArgs) -> serde_json::Value {
    use crate::h_norm as n;
    let shapes = n::tier_shapes(a.thorough);
    let cap = if a.thorough { 20_000_000 } else { 300_000 };
    let mut st = n::NormStats::default();
    let mut skipped = 0;
    for (i, s) in shapes.iter().enumerate() {
        if !a.mine(i) {
            continue;
        }
        if a.out_of_time() {
            skipped += 1;
            continue;
        }
        a.beat(&format!("C11 shape {i}: {s:?}"));
        n::run_shape(s, i, cap, &mut st);
    }
    if a.si == 0 {
        if let Some(msg) = n::late_features(40) {
            st.violations.push(json!({
                "engine": "hist", "property": "C11", "key": "late-feature-lost", "late_features": 40, "message": msg,
            }));
        }
    }
    for v in &mut st.violations {
        v["tier"] = json!(a.tier);
    }
    json!({
        "property": "C11", "tier": a.tier,
        "total_configs": shapes.len(), "configs_done": st.shapes, "configs_capped": st.capped_shapes,
        "configs_skipped_budget": skipped,
        "states": st.nodes, "transitions": st.nodes.saturating_sub(st.shapes), "execs": st.leaves,
        "distinct_outcomes": st.reordered_leaves,
        "details": {"complete_linearizations": st.leaves, "linearizations_actually_reordered": st.reordered_leaves},
        "violations": st.violations, "samples": st.samples,
        "assumptions": ["entity sets: <=2 features (plus fixed three-feature shapes), <=2 rules each, <=2 (quick) / 3 (thorough) scenarios per feature, <=2 attempts, 2-3 events per attempt; total weight bound as in h_norm::tier_shapes"],
    })
}

pub fn run(args: &[String]) -> i32 {
    let a = parse_args(args);
    let mut res = match a.prop.as_str() {
        "C11" => c11(&a),
        "C12" => crate::h_sum::run(&a),
        "C13" => crate::h_comb::run(&a),
        "C14" => crate::h_report::run(&a),
        "C15" => crate::h_filter::run(&a),
        "C16" => crate::h_outline::run(&a),
        "C17" => crate::h_step::run(&a),
        "C18" => crate::h_retry::run(&a),
        "C19" => crate::zoo::run(&a),
        other => {
            eprintln!("hist: no engine for {other}");
            return 2;
        }
    };
    res["wall_s"] = json!(a.t0.elapsed().as_secs_f64());
    res["shard"] = json!(format!("{}/{}", a.si, a.sn));
    std::fs::write(&a.out, serde_json::to_string_pretty(&res).unwrap()).unwrap();
    0
}

pub fn replay(j: &serde_json::Value) -> i32 {
    let prop = j["property"].as_str().unwrap_or("");
    let thorough = j["tier"].as_str() == Some("thorough");
    println!("replaying {prop}: {}", j["message"].as_str().unwrap_or(""));
    match prop {
        "C11" if j["late_features"].as_u64().is_some() => {
            let r = crate::h_norm::late_features(j["late_features"].as_u64().unwrap() as usize);
            if let Some(m) = &r {
                println!("violation C11 [late-feature-lost]: {m}");
            }
            i32::from(r.is_some())
        }
        "C11" => {
            let order: Vec<usize> =
                j["order"].as_array().unwrap().iter().map(|x| x.as_u64().unwrap() as usize).collect();
            crate::h_norm::replay(thorough, j["shape"].as_u64().unwrap() as usize, &order)
        }
        "C12" => crate::h_sum::replay(j),
        "C13" => crate::h_comb::replay(j),
        "C14" => crate::h_report::replay(j),
        "C15" => crate::h_filter::replay(j),
        "C16" => crate::h_outline::replay(j),
        "C17" => crate::h_step::replay(j),
        "C18" => crate::h_retry::replay(j),
        "C19" => crate::zoo::replay(j),
        _ => 2,
    }
}
