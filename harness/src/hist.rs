//! Engine B entry points.
pub fn run(_args: &[String]) -> i32 { eprintln!("hist: not built yet"); 2 }
pub fn replay(_j: &serde_json::Value) -> i32 { 2 }
