//! C20: tracing log attribution, through the real `init_tracing()` pipeline
//! (built only with the `tracing` feature; hook H3 hands us the `Dispatch`).

use std::task::Context as TaskCx;

use cucumber::{cli, runner::Basic, writer, Cucumber, Writer};
use futures::FutureExt as _;

use crate::{
    canon::{self, Ev, HookEv, HookKind, ScEv, StepEv},
    exec::{self, SubjPoll, Subject, Trace},
    families::{Fault, Tier},
    hs::{self, GateMode, LogKind, Outcome, TW},
    oracles::Violation,
    pipe::HParser,
    spec::{self, Config, FeatSpec, Gran, Item, RawItem, ScenSpec, StepKind},
};

/// Records every event handed to the writer.
#[derive(Clone, Copy, Debug, Default)]
pub struct SpyWriter;

impl Writer<TW> for SpyWriter {
    type Cli = cli::Empty;
    async fn handle_event(&mut self, ev: RawItem, _: &cli::Empty) {
        exec::record_event(canon::canon(&ev));
        exec::keep_alive(&ev);
    }
}
impl writer::Normalized for SpyWriter {}

struct TracedSubject {
    fut: futures::future::LocalBoxFuture<'static, ()>,
    dispatch: tracing::Dispatch,
    /// poll the run inside a user span that encloses everything
    outer: bool,
    outer_span: Option<tracing::Span>,
}

impl Subject for TracedSubject {
    fn poll(&mut self, cx: &mut TaskCx<'_>) -> SubjPoll {
        let fut = &mut self.fut;
        let (outer, slot) = (self.outer, &mut self.outer_span);
        tracing::dispatcher::with_default(&self.dispatch, || {
            let mut poll = || match fut.poll_unpin(cx) {
                std::task::Poll::Ready(()) => SubjPoll::Done,
                std::task::Poll::Pending => SubjPoll::Pending,
            };
            if outer {
                let span = slot.get_or_insert_with(|| tracing::info_span!("user outer span", user = 1));
                span.in_scope(poll)
            } else {
                poll()
            }
        })
    }
}

macro_rules! make_subject {
    ($cfg:expr, $runner:expr) => {{
        let cfg: &Config = $cfg;
        let opts = cli::Opts {
            re_filter: None,
            tags_filter: None,
            parser: cli::Empty,
            runner: spec::runner_cli(cfg),
            writer: cli::Empty,
            custom: cli::Empty,
        };
        cucumber::verif::capture_dispatch();
        let c = Cucumber::<TW, HParser, (), _, SpyWriter, cli::Empty>::custom(
            HParser(cfg.clone()),
            $runner,
            SpyWriter,
        )
        .with_cli(opts);
        hs::LOG_AT_WARN.with(|w| w.set(cfg.warn_filter));
        let c = if cfg.warn_filter {
            use tracing_subscriber::{filter::LevelFilter, layer::SubscriberExt as _, Layer as _};
            c.configure_and_init_tracing(
                tracing_subscriber::fmt::format::DefaultFields::new(),
                tracing_subscriber::fmt::format::Format::default(),
                |layer| tracing_subscriber::registry().with(LevelFilter::WARN.and_then(layer)),
            )
        } else {
            c.init_tracing()
        };
        let dispatch =
            cucumber::verif::take_dispatch().expect("hook H3 did not hand over the Dispatch");
        // (a template kept around while a clone of it runs, as in a test matrix)
        let keep = cfg.clone_alive.then(|| c.clone());
        let fut = if cfg.custom_which {
            // a type-changing builder method applied *after* tracing was initialised
            let c = c.which_scenario(spec::custom_which_fn());
            async move {
                let _ = c.run(()).await;
                drop(keep);
            }
            .boxed_local()
        } else {
            async move {
                let _ = c.run(()).await;
                drop(keep);
            }
            .boxed_local()
        };
        let b: Box<dyn Subject> =
            Box::new(TracedSubject { fut, dispatch, outer: cfg.outer_span, outer_span: None });
        b
    }};
}

pub fn subject(cfg: &Config) -> Box<dyn Subject> {
    assert!(cfg.before == cfg.after);
    let mut base = Basic::<TW>::default();
    if let Some(c) = cfg.conc_builder {
        base = base.max_concurrent_scenarios(c);
    }
    let base = base.steps(spec::collection());
    if cfg.before {
        make_subject!(
            cfg,
            base.before(hs::before_hook as cucumber::runner::basic::BeforeHookFn<TW>)
                .after(hs::after_hook as cucumber::runner::basic::AfterHookFn<TW>)
        )
    } else {
        make_subject!(cfg, base)
    }
}

fn scen(tags: &[&str], steps: &[StepKind]) -> ScenSpec {
    ScenSpec { tags: tags.iter().map(|s| (*s).to_owned()).collect(), steps: steps.to_vec() }
}

/// 1-3 concurrent scenarios whose steps and hooks log before / after their gate.
pub fn family(tier: Tier) -> Vec<Config> {
    let m = StepKind::Matched;
    let mut out = Vec::new();
    for nsc in 1..=3usize {
        // (.., 100): a burst of log events emitted without an await in between
        for (lb, la) in [(0usize, 0usize), (1, 0), (0, 1), (1, 1), (2, 1), (0, 100), (70, 0)] {
            if lb + la >= 70 && nsc != 2 {
                continue;
            }
            for retry in [0usize, 1] {
                for fault in ["none", "step", "before", "after"] {
                    if retry == 0 && fault != "none" && fault != "step" {
                        continue;
                    }
                    for (gates, hooks) in [
                        (GateMode::Steps, true),
                        (GateMode::All, true),
                        (GateMode::Steps, false),
                    ] {
                        if lb + la >= 70 && (gates == GateMode::All || retry > 0) {
                            continue;
                        }
                        if !hooks && (fault == "before" || fault == "after") {
                            continue;
                        }
                        for (conc, outer, warn) in [
                            (Some(1usize), false, false),
                            (Some(2), false, false),
                            (Some(2), true, false),
                            (Some(2), false, true),
                            // a clone of the Cucumber kept alive (flagged by conc Some(3))
                            (Some(3), false, false),
                            // `which_scenario` applied after `init_tracing` (flagged by conc Some(5))
                            (Some(5), false, false),
                            // builder limit 1 overridden by `--concurrency 2` (flagged by conc Some(7))
                            (Some(7), false, false),
                            // the last scenario has no steps: only its hooks log (flagged by conc Some(9))
                            (Some(9), false, false),
                        ] {
                            let clone_alive = conc == Some(3);
                            let which_late = conc == Some(5);
                            let cli_over = conc == Some(7);
                            let hollow = conc == Some(9);
                            if hollow && (!hooks || nsc < 2) {
                                continue;
                            }
                            let conc = if cli_over { Some(1) } else if hollow { Some(2) } else { conc };
                            if (outer || warn || clone_alive || which_late || cli_over || hollow) && (gates == GateMode::All || fault != "none") {
                                continue;
                            }
                            let mut cfg = Config::default();
                            cfg.outer_span = outer;
                            cfg.warn_filter = warn;
                            cfg.clone_alive = clone_alive;
                            cfg.custom_which = which_late;
                            let mut tags: Vec<&str> = vec![];
                            if retry > 0 {
                                tags.push("retry(1)");
                            }
                            cfg.feats = (0..nsc)
                                .map(|i| FeatSpec {
                                    scenarios: vec![scen(
                                        if i == 0 { &tags } else { &[] },
                                        &[m, m][..if hollow && i + 1 == nsc { 0 } else { 2 }],
                                    )],
                                    ..Default::default()
                                })
                                .collect();
                            cfg.items = (0..nsc).map(Item::Feat).collect();
                            cfg.before = hooks;
                            cfg.after = hooks;
                            cfg.conc_builder = Some(conc);
                            cfg.conc_cli = cli_over.then_some(2);
                            cfg.plan.gates = gates.clone();
                            cfg.plan.logs_before = lb;
                            cfg.plan.logs_after = la;
                            cfg.gran = Gran::L0;
                            cfg.k_noprogress = 16;
                            let info = cfg.scen_infos()[0].clone();
                            let off = usize::from(hooks);
                            let chain: Vec<Fault> = match fault {
                                "none" => vec![Fault::None],
                                "step" => vec![Fault::Call(1 + off, Outcome::PanicString), Fault::None],
                                "before" => vec![Fault::Call(0, Outcome::PanicString), Fault::None],
                                _ => vec![Fault::Call(3, Outcome::PanicString), Fault::None],
                            };
                            let chain = if retry == 0 { vec![chain[0]] } else { chain };
                            let Some((outcomes, worlds)) =
                                crate::families::chain_plan(&info, hooks, hooks, &chain)
                            else {
                                continue;
                            };
                            cfg.plan.outcomes = outcomes;
                            cfg.plan.world_new = worlds;
                            let ngates = nsc * (if gates == GateMode::All { 5 } else { 2 }) + retry * 2;
                            if ngates > (if tier == Tier::Quick { 6 } else { 8 }) {
                                cfg.bound = Some(if tier == Tier::Quick { 2 } else { 5 });
                            }
                            cfg.max_execs = if tier == Tier::Quick { 4_000 } else { 400_000 };
                            cfg.name = format!(
                                "trace/n{nsc}|lb{lb}la{la}|r{retry}|{fault}|g{gates:?}|c{conc:?}|hooks{}|outer{}|warn{}|clone{}|cliover{}|hollow{}",
                                u8::from(hooks),
                                u8::from(outer),
                                u8::from(warn),
                                u8::from(clone_alive),
                                u8::from(cli_over),
                                u8::from(hollow)
                            );
                            out.push(cfg);
                        }
                    }
                }
            }
        }
    }
    // (No poll-granular (L1) configurations here: the tracing `Collector` hands span-close
    // notifications out in the iteration order of a `HashMap` with a per-map random hasher
    // (`tracing.rs` `notify_about_closing_spans`), which decides the order in which waiting
    // attempts are woken; at quiescence granularity that order does not change the decision
    // points, at poll granularity it does, and a replayed prefix then diverges once in a
    // few million executions. Nondeterminism the harness does not own: not explored.)
    let _ = Gran::L1;
    out
}

fn key_scenario(key: &str) -> Option<String> {
    // "step F1.S1 2" / "before F1.S1" / "after F1.S1"
    let mut it = key.split(' ');
    match (it.next(), it.next()) {
        (Some("step" | "before" | "after"), Some(s)) => Some(s.to_owned()),
        _ => None,
    }
}

pub fn check(cfg: &Config, tr: &Trace) -> Vec<Violation> {
    let _ = cfg;
    let mut out = Vec::new();
    if !tr.ended {
        return out;
    }
    let fin = tr.events.iter().position(|e| e.ev == Ev::Finished).unwrap_or(tr.events.len());
    for l in &tr.log {
        let LogKind::Emit { key, inv, id } = &l.kind else { continue };
        let Some(scen) = key_scenario(key) else { continue };
        let needle = format!("[{id}]");
        let hits: Vec<usize> = tr
            .events
            .iter()
            .enumerate()
            .filter(|(_, e)| matches!(&e.ev, Ev::Sc { ev: ScEv::Log(m), .. } if m.contains(&needle)))
            .map(|(i, _)| i)
            .collect();
        if hits.len() != 1 {
            out.push(Violation {
                prop: "C20",
                key: if hits.is_empty() { "log-lost".into() } else { "log-duplicated".into() },
                msg: format!("log {needle} emitted by {key} was delivered {} times", hits.len()),
            });
            continue;
        }
        let at = hits[0];
        let Ev::Sc { s, retries, .. } = &tr.events[at].ev else { unreachable!() };
        if *s != scen {
            out.push(Violation {
                prop: "C20",
                key: "log-wrong-scenario".into(),
                msg: format!("log {needle} of {scen} was delivered as a Log of {s}"),
            });
            continue;
        }
        if at > fin {
            out.push(Violation {
                prop: "C20",
                key: "log-after-finished".into(),
                msg: format!("log {needle} delivered after run-Finished"),
            });
        }
        // the bracket of the emitting callable: its inv-th Started / result in this scenario
        let is_start = |e: &ScEv| -> bool {
            if let Some(text) = key.strip_prefix("step ").map(|_| key.as_str()) {
                matches!(e, ScEv::Step(_, t, _, StepEv::Started) if crate::spec::strip_lead(t) == text)
            } else if key.starts_with("before ") {
                matches!(e, ScEv::Hook(HookKind::Before, HookEv::Started))
            } else {
                matches!(e, ScEv::Hook(HookKind::After, HookEv::Started))
            }
        };
        let is_result = |e: &ScEv| -> bool {
            if key.starts_with("step ") {
                matches!(e, ScEv::Step(_, t, _, StepEv::Passed | StepEv::Failed(..) | StepEv::Skipped) if crate::spec::strip_lead(t) == key)
            } else if key.starts_with("before ") {
                matches!(e, ScEv::Hook(HookKind::Before, HookEv::Passed | HookEv::Failed(..)))
            } else {
                matches!(e, ScEv::Hook(HookKind::After, HookEv::Passed | HookEv::Failed(..)))
            }
        };
        let starts: Vec<(usize, Option<(usize, usize)>)> = tr
            .events
            .iter()
            .enumerate()
            .filter_map(|(i, e)| match &e.ev {
                Ev::Sc { s, retries, ev, .. } if *s == scen && is_start(ev) => Some((i, *retries)),
                _ => None,
            })
            .collect();
        let Some((start_idx, att)) = starts.get(*inv).copied() else {
            out.push(Violation {
                prop: "C20",
                key: "log-no-bracket".into(),
                msg: format!("log {needle}: {key} invocation {inv} has no Started event"),
            });
            continue;
        };
        if *retries != att {
            out.push(Violation {
                prop: "C20",
                key: "log-wrong-attempt".into(),
                msg: format!("log {needle} emitted in attempt {att:?} was delivered with retries {retries:?}"),
            });
            continue;
        }
        let result_idx = tr.events.iter().enumerate().position(|(i, e)| {
            i > start_idx && matches!(&e.ev, Ev::Sc { s, retries, ev, .. } if *s == scen && *retries == att && is_result(ev))
        });
        let ok = at > start_idx && result_idx.is_some_and(|r| at < r);
        if !ok {
            let after_hook = key.starts_with("after ");
            out.push(Violation {
                prop: "C20",
                key: if after_hook && at < start_idx {
                    "after-hook-log-before-started".into()
                } else {
                    "log-position".into()
                },
                msg: format!(
                    "log {needle} of {key} delivered at event #{at}, its Started is #{start_idx}, its result #{result_idx:?}"
                ),
            });
        }
    }
    out
}

/// Known finding D5: logs of an after hook are forwarded live while the
/// hook's own events are deferred until it has run.
pub fn explain(v: &Violation) -> Option<&'static str> {
    (v.key == "after-hook-log-before-started").then_some("after-hook-log-before-started")
}
