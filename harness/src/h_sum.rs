//! C12: `writer::Summarize` counters against an independent recount, on every
//! normalized stream of a grammar built from the scenario reference model.

use std::collections::BTreeMap;

use cucumber::{
    cli,
    writer::{Repeat, Stats as _, Summarize},
    WriterExt as _,
};
use serde_json::json;

use crate::{
    canon::{Ev, HookEv, ScEv, StepEv},
    families::{chain_plan, Fault},
    hist::ShardArgs,
    hs::{Outcome, Plan, TW},
    rec::{erase, feed, sc, Rec, Seen, Sources},
    refm::{predict_attempt, InvCounters, WorldObs},
    spec::{Config, FeatSpec, Item, RuleSpec, ScenInfo, ScenSpec, StepKind},
};

const M: StepKind = StepKind::Matched;

/// One scenario of the grammar: spec + retry budget + fault chain.
#[derive(Clone, Debug)]
pub struct ScenCase {
    pub steps: Vec<StepKind>,
    pub n: usize,
    pub chain: Vec<Fault>,
    pub allow_skipped: bool,
}

#[derive(Clone, Copy, Debug, PartialEq, Eq)]
pub enum Placement {
    SameAfter,
    SameBefore,
    OtherFeature,
    InRule,
}

#[derive(Clone, Copy, Debug, PartialEq, Eq)]
pub enum Transform {
    None,
    /// as `FailOnSkipped` rewrites the stream
    Fos,
    /// fail-fast cut: the first scenario's retries never happen
    Cut,
}

#[derive(Clone, Copy, Debug, PartialEq, Eq)]
pub enum Nest {
    Sum,
    SumRepeatFailed,
    RepeatFailedSum,
    RepeatSkippedSum,
    /// `Repeat` with a filter that matches everything: the whole stream, run-Finished
    /// included, is replayed into `Summarize`
    RepeatAllSum,
}

/// How the events of the two scenarios are laid out in the (raw, not normalised) stream
/// that `Summarize` sees when it wraps a `Normalize`.
#[derive(Clone, Copy, Debug, PartialEq, Eq)]
pub enum Merge {
    /// one scenario after the other
    Seq,
    /// all of U (with its rule bracket) between attempt `k` and `k + 1` of T
    UAfterAttempt(usize),
    /// the events of T and U alternate one by one
    Zip,
}

#[derive(Clone, Debug)]
pub struct Case {
    /// the (last) parser error arrives in the middle of the run (lazy parser), followed by
    /// ParsingFinished, instead of before the first feature
    pub perr_mid: bool,
    pub merge: Merge,
    pub t: ScenCase,
    pub u: Option<(ScenCase, Placement)>,
    pub fbg: Vec<StepKind>,
    pub before: bool,
    pub after: bool,
    pub perrs: usize,
    pub transform: Transform,
}

fn attempts(
    info: &ScenInfo,
    before: bool,
    after: bool,
    plan: &Plan,
    n: usize,
    shared_bg: bool,
) -> Vec<(Option<(usize, usize)>, Vec<ScEv>, bool)> {
    let mut inv = InvCounters::new();
    let mut out = Vec::new();
    let mut k = 0;
    loop {
        let p = predict_attempt(info, before, after, plan, &mut inv, shared_bg, WorldObs::Ok);
        let r = (n > 0).then_some((k, n - k));
        let failed = p.failed;
        out.push((r, p.events, failed));
        if failed && k < n {
            k += 1;
        } else {
            break;
        }
    }
    out
}

/// Builds the configuration (for sources) and the normalized input stream.
pub fn build(case: &Case) -> Option<(Config, Vec<Ev>)> {
    let mk = |c: &ScenCase| ScenSpec {
        tags: if c.allow_skipped { vec!["allow.skipped".into()] } else { vec![] },
        steps: c.steps.clone(),
    };
    let mut cfg = Config::default();
    let t = mk(&case.t);
    // layout
    let (t_pos, u_pos): (usize, Option<usize>);
    match &case.u {
        None => {
            cfg.feats = vec![FeatSpec { bg: case.fbg.clone(), scenarios: vec![t], ..Default::default() }];
            t_pos = 0;
            u_pos = None;
        }
        Some((u, Placement::SameAfter)) => {
            cfg.feats =
                vec![FeatSpec { bg: case.fbg.clone(), scenarios: vec![t, mk(u)], ..Default::default() }];
            t_pos = 0;
            u_pos = Some(1);
        }
        Some((u, Placement::SameBefore)) => {
            cfg.feats =
                vec![FeatSpec { bg: case.fbg.clone(), scenarios: vec![mk(u), t], ..Default::default() }];
            t_pos = 1;
            u_pos = Some(0);
        }
        Some((u, Placement::OtherFeature)) => {
            cfg.feats = vec![
                FeatSpec { bg: case.fbg.clone(), scenarios: vec![t], ..Default::default() },
                FeatSpec { scenarios: vec![mk(u)], ..Default::default() },
            ];
            t_pos = 0;
            u_pos = Some(1);
        }
        Some((u, Placement::InRule)) => {
            cfg.feats = vec![FeatSpec {
                bg: case.fbg.clone(),
                scenarios: vec![t],
                rules: vec![RuleSpec { tags: vec![], bg: vec![], scenarios: vec![mk(u)] }],
                ..Default::default()
            }];
            t_pos = 0;
            u_pos = Some(1);
        }
    }
    if case.merge != Merge::Seq && (cfg.feats.len() != 1 || u_pos.is_none()) {
        // the interleaved layouts are defined for two scenarios of one feature
        return None;
    }
    cfg.items = (0..cfg.feats.len()).map(Item::Feat).collect();
    // a step-less scenario directly followed by `Rule:` is not parsed as intended by gherkin
    for (i, f) in cfg.feats.iter().enumerate() {
        let p = f.parse(i);
        if p.rules.len() != f.rules.len()
            || p.scenarios.len() != f.scenarios.len()
            || p.rules.iter().zip(&f.rules).any(|(a, b)| a.scenarios.len() != b.scenarios.len())
        {
            return None;
        }
    }
    cfg.before = case.before;
    cfg.after = case.after;
    let infos = cfg.scen_infos();
    let shared_bg = !case.fbg.is_empty() && infos.iter().filter(|i| i.feat_idx == 0).count() > 1;
    if shared_bg && case.fbg.iter().any(|k| *k == M) {
        // shared background steps must be invocation-uniform: the chain may not fault them
        // (chain_plan only addresses the scenario's own keys by index, bg included) -> reject
        // chains that fault a background step
    }
    let mut plan = Plan::default();
    let mut per_scen: Vec<Vec<(Option<(usize, usize)>, Vec<ScEv>, bool)>> = vec![vec![]; infos.len()];
    for (pos, c) in [(Some(t_pos), Some(&case.t)), (u_pos, case.u.as_ref().map(|x| &x.0))] {
        let (Some(pos), Some(c)) = (pos, c) else { continue };
        let info = &infos[pos];
        let (outcomes, _w) = chain_plan(info, case.before, case.after, &c.chain)?;
        if shared_bg {
            // no faults on shared background keys
            for call in info.calls.iter().filter(|c| c.is_bg) {
                if outcomes.get(&call.key).is_some_and(|v| v.iter().any(|o| o.is_fail())) {
                    return None;
                }
            }
        }
        for (k, v) in outcomes {
            if !(shared_bg && k.starts_with("bg ")) {
                plan.outcomes.insert(k, v);
            }
        }
    }
    for (pos, c) in [(Some(t_pos), Some(&case.t)), (u_pos, case.u.as_ref().map(|x| &x.0))] {
        let (Some(pos), Some(c)) = (pos, c) else { continue };
        per_scen[pos] = attempts(&infos[pos], case.before, case.after, &plan, c.n, shared_bg);
    }
    if case.transform == Transform::Cut {
        // only meaningful if the first scenario has a retried failure
        let first = &mut per_scen[if t_pos == 0 { t_pos } else { u_pos.unwrap_or(t_pos) }];
        if first.len() < 2 {
            return None;
        }
        first.truncate(1);
    }
    // assemble sequentially
    let mut s: Vec<Ev> = vec![Ev::Started];
    for i in 0..case.perrs {
        s.push(Ev::ParseErr(format!("e{i}")));
    }
    s.push(Ev::ParsingFinished {
        features: cfg.feats.len(),
        rules: cfg.feats.iter().map(|f| f.rules.len()).sum(),
        scenarios: infos.len(),
        steps: infos.iter().map(|i| i.own_steps).sum(),
        parser_errors: case.perrs,
    });
    let mut cut_now = false;
    for fi in 0..cfg.feats.len() {
        let fname = crate::spec::feat_name(fi);
        s.push(Ev::FeatStarted(fname.clone()));
        if case.merge != Merge::Seq {
            // both scenarios live in this feature; lay their events out as the merge says
            let (tp, up) = (t_pos, u_pos.expect("merge needs two scenarios"));
            let ev_list = |pos: usize| -> Vec<Vec<Ev>> {
                per_scen[pos]
                    .iter()
                    .map(|(r, evs, _)| {
                        evs.iter()
                            .map(|e| sc(&fname, infos[pos].rule.as_deref(), &infos[pos].name, *r, e.clone()))
                            .collect()
                    })
                    .collect()
            };
            let (t_atts, u_atts) = (ev_list(tp), ev_list(up));
            let u_rule = infos[up].rule.clone();
            let mut u_block: Vec<Ev> = Vec::new();
            if let Some(r) = &u_rule {
                u_block.push(Ev::RuleStarted(fname.clone(), r.clone()));
            }
            u_block.extend(u_atts.iter().flatten().cloned());
            if let Some(r) = &u_rule {
                u_block.push(Ev::RuleFinished(fname.clone(), r.clone()));
            }
            match case.merge {
                Merge::UAfterAttempt(k) => {
                    for (i, a) in t_atts.iter().enumerate() {
                        s.extend(a.iter().cloned());
                        if i == k {
                            s.extend(u_block.iter().cloned());
                        }
                    }
                }
                Merge::Zip => {
                    let t_all: Vec<Ev> = t_atts.into_iter().flatten().collect();
                    let (mut i, mut j) = (0, 0);
                    while i < t_all.len() || j < u_block.len() {
                        if i < t_all.len() {
                            s.push(t_all[i].clone());
                            i += 1;
                        }
                        if j < u_block.len() {
                            s.push(u_block[j].clone());
                            j += 1;
                        }
                    }
                }
                Merge::Seq => unreachable!(),
            }
            s.push(Ev::FeatFinished(fname));
            continue;
        }
        let mut open_rule: Option<String> = None;
        for (pos, info) in infos.iter().enumerate().filter(|(_, i)| i.feat_idx == fi) {
            if cut_now {
                break;
            }
            if info.rule != open_rule {
                if let Some(r) = open_rule.take() {
                    s.push(Ev::RuleFinished(fname.clone(), r));
                }
                if let Some(r) = &info.rule {
                    s.push(Ev::RuleStarted(fname.clone(), r.clone()));
                    open_rule = Some(r.clone());
                }
            }
            for (r, evs, _) in &per_scen[pos] {
                for e in evs {
                    s.push(sc(&fname, info.rule.as_deref(), &info.name, *r, e.clone()));
                }
            }
            if case.transform == Transform::Cut {
                cut_now = true;
            }
        }
        if let Some(r) = open_rule.take() {
            s.push(Ev::RuleFinished(fname.clone(), r));
        }
        s.push(Ev::FeatFinished(fname));
        if cut_now {
            break;
        }
    }
    s.push(Ev::Finished);
    if case.transform == Transform::Fos {
        for e in &mut s {
            if let Ev::Sc { s: name, ev: ScEv::Step(_, _, _, st @ StepEv::Skipped), .. } = e {
                let allowed = infos.iter().find(|i| i.name == *name).is_some_and(|i| i.has_tag("allow.skipped"));
                if !allowed {
                    *st = StepEv::Failed("NotFound".into(), None);
                }
            }
        }
    }
    if case.perr_mid && case.perrs > 0 {
        // move the last parser error and ParsingFinished behind the first scenario event
        let pe = s.iter().rposition(|e| matches!(e, Ev::ParseErr(_))).expect("parser error");
        let err = s.remove(pe);
        let pf = s.iter().position(|e| matches!(e, Ev::ParsingFinished { .. })).expect("ParsingFinished");
        let pfe = s.remove(pf);
        // (behind the first step / hook result if there is one: the reporters have opened
        // the feature's entry by then)
        let first_result = s.iter().position(|e| {
            matches!(
                e,
                Ev::Sc { ev: ScEv::Step(_, _, _, StepEv::Passed | StepEv::Skipped | StepEv::Failed(..)), .. }
                    | Ev::Sc { ev: ScEv::Hook(_, HookEv::Passed | HookEv::Failed(..)), .. }
            )
        });
        match first_result.or_else(|| s.iter().position(|e| matches!(e, Ev::Sc { .. }))) {
            Some(at) => {
                s.insert(at + 1, err);
                s.insert(at + 2, pfe);
            }
            None => return None,
        }
    }
    // payloads / world ids in the form the realized events render to
    let s = s.iter().map(erase).collect();
    Some((cfg, s))
}

// ------------------------------------------------------------------ recount

#[derive(Clone, Debug, Default, PartialEq, Eq)]
pub struct Counts {
    pub features: usize,
    pub rules: usize,
    pub sc_passed: usize,
    pub sc_skipped: usize,
    pub sc_failed: usize,
    pub sc_retried_max: usize,
    pub st_passed: usize,
    pub st_skipped: usize,
    pub st_failed: usize,
    pub st_retried: usize,
    pub parsing_errors: usize,
    pub hook_errors: usize,
}

fn is_final(r: Option<(usize, usize)>) -> bool {
    r.is_none_or(|(_, left)| left == 0)
}

/// The recount written from the statement of C12 (DESIGN App. B).
pub fn recount(stream: &[Ev]) -> Counts {
    let mut c = Counts::default();
    // per scenario: ordered attempts -> (has final failure, has skipped, finished, has retried failure)
    #[derive(Default, Clone)]
    struct Att {
        failed: bool,
        skipped: bool,
        finished: bool,
        nonfinal_failure: bool,
    }
    let mut scen: BTreeMap<String, Vec<(Option<(usize, usize)>, Att)>> = BTreeMap::new();
    for e in stream {
        match e {
            Ev::ParseErr(_) => c.parsing_errors += 1,
            Ev::FeatStarted(_) => c.features += 1,
            Ev::RuleStarted(..) => c.rules += 1,
            Ev::Sc { s, retries, ev, .. } => {
                let atts = scen.entry(s.clone()).or_default();
                if atts.last().is_none_or(|(r, _)| r != retries) {
                    atts.push((*retries, Att::default()));
                }
                let a = &mut atts.last_mut().unwrap().1;
                match ev {
                    ScEv::Step(_, _, _, StepEv::Passed) => c.st_passed += 1,
                    ScEv::Step(_, _, _, StepEv::Skipped) => {
                        c.st_skipped += 1;
                        a.skipped = true;
                    }
                    ScEv::Step(_, _, _, StepEv::Failed(kind, _)) => {
                        if is_final(*retries) || kind == "NotFound" {
                            c.st_failed += 1;
                            a.failed = true;
                        } else {
                            c.st_retried += 1;
                            a.nonfinal_failure = true;
                        }
                    }
                    ScEv::Hook(_, HookEv::Failed(..)) => {
                        c.hook_errors += 1;
                        if is_final(*retries) {
                            a.failed = true;
                        } else {
                            a.nonfinal_failure = true;
                        }
                    }
                    ScEv::Finished => a.finished = true,
                    _ => {}
                }
            }
            _ => {}
        }
    }
    for atts in scen.values() {
        if atts.iter().any(|(_, a)| a.nonfinal_failure) {
            c.sc_retried_max += 1;
        }
        let Some((_, last)) = atts.iter().rev().find(|(_, a)| a.finished) else { continue };
        // a last observed attempt that failed with retries left (run cut): exempt
        if last.nonfinal_failure && !last.failed {
            continue;
        }
        if last.failed {
            c.sc_failed += 1;
        } else if last.skipped {
            c.sc_skipped += 1;
        } else {
            c.sc_passed += 1;
        }
    }
    c
}

#[derive(Clone, Debug, Default, PartialEq, Eq)]
pub struct Observed {
    pub features: Option<usize>,
    pub rules: Option<usize>,
    pub sc: (usize, usize, usize, usize),
    pub st: (usize, usize, usize, usize),
    /// the same four counters as `steps_stats()` states them (`st` is read through the
    /// `writer::Stats` trait methods); `None` when the counters come from the summary text
    pub st_struct: Option<(usize, usize, usize, usize)>,
    pub parsing_errors: usize,
    pub hook_errors: usize,
    pub summary_scenarios: Option<usize>,
    pub summary_steps: Option<usize>,
}

fn leading_number(line: &str) -> Option<usize> {
    line.split_whitespace().next()?.parse().ok()
}

/// Parses "N feature(s)", "N rule(s)", "N scenario(s) (..)", "N step(s) (..)".
pub fn parse_summary(text: &str, o: &mut Observed) -> Result<(), String> {
    let mut lines = text.lines();
    if lines.next() != Some("[Summary]") {
        return Err(format!("summary does not start with [Summary]: {text:?}"));
    }
    for l in lines {
        let first = l.split(" (").next().unwrap_or(l);
        if first.contains("feature") {
            o.features = leading_number(l);
        } else if first.contains("rule") {
            o.rules = leading_number(l);
        } else if first.contains("scenario") {
            o.summary_scenarios = leading_number(l);
        } else if first.contains("step") {
            o.summary_steps = leading_number(l);
        }
    }
    if o.rules.is_none() {
        o.rules = Some(0);
    }
    Ok(())
}

type S0 = Summarize<Rec>;
type S1 = Summarize<Repeat<TW, Rec>>;
type S2 = Repeat<TW, Summarize<Rec>>;

fn observe_sum<W>(s: &Summarize<W>) -> Observed
where
    Summarize<W>: cucumber::writer::Stats<TW>,
{
    let sc = s.scenarios_stats();
    let st = s.steps_stats();
    Observed {
        sc: (sc.passed, sc.skipped, sc.failed, sc.retried),
        st: (s.passed_steps(), s.skipped_steps(), s.failed_steps(), s.retried_steps()),
        parsing_errors: s.parsing_errors(),
        hook_errors: s.hook_errors(),
        st_struct: Some((st.passed, st.skipped, st.failed, st.retried)),
        ..Observed::default()
    }
}

/// Runs the stream through the nesting; returns what was observed, what the
/// recording writer saw, and the counters snapshot taken at run-Finished.
pub fn run_nest(nest: Nest, src: &Sources, stream: &[Ev]) -> (Observed, Vec<Seen>, Observed) {
    let e = cli::Empty;
    macro_rules! go {
        ($w:expr, $obs:expr, $rec:expr) => {{
            let mut w = $w;
            let mut at_finish = Observed::default();
            for ev in stream {
                feed(&mut w, src.realize(ev), &e);
                if *ev == Ev::Finished {
                    at_finish = $obs(&w);
                }
            }
            let o = $obs(&w);
            let seen: Vec<Seen> = $rec(&w);
            (o, seen, at_finish)
        }};
    }
    match nest {
        Nest::Sum => go!(
            Rec::default().summarized(),
            |w: &S0| observe_sum(w),
            |w: &S0| w.inner_writer().seen.clone()
        ),
        Nest::SumRepeatFailed => go!(
            Rec::default().repeat_failed::<TW>().summarized(),
            |w: &S1| observe_sum(w),
            |w: &S1| w.inner_writer().inner_writer().seen.clone()
        ),
        Nest::RepeatFailedSum => go!(
            Rec::default().summarized().repeat_failed::<TW>(),
            |w: &S2| observe_sum(w.inner_writer()),
            |w: &S2| w.inner_writer().inner_writer().seen.clone()
        ),
        Nest::RepeatSkippedSum => go!(
            Rec::default().summarized().repeat_skipped::<TW>(),
            |w: &S2| observe_sum(w.inner_writer()),
            |w: &S2| w.inner_writer().inner_writer().seen.clone()
        ),
        Nest::RepeatAllSum => go!(
            Rec::default().summarized().repeat_if::<TW, _>((|_| true) as cucumber::writer::repeat::FilterEvent<TW>),
            |w: &S2| observe_sum(w.inner_writer()),
            |w: &S2| {
                // the recording writer sees the replay as well: keep what came up to the
                // first run-Finished plus every write
                let seen = &w.inner_writer().inner_writer().seen;
                let fin = seen.iter().position(|s| matches!(s, Seen::Event(Ev::Finished))).unwrap_or(seen.len());
                seen.iter()
                    .enumerate()
                    .filter(|(i, s)| *i <= fin || matches!(s, Seen::Write(_)))
                    .map(|(_, s)| s.clone())
                    .collect()
            }
        ),
    }
}

pub struct Verdict {
    pub key: String,
    pub msg: String,
}

pub fn check(nest: Nest, stream: &[Ev], obs: &Observed, seen: &[Seen], at_finish: &Observed) -> Vec<Verdict> {
    let mut out = Vec::new();
    let want = recount(stream);
    let mut o = obs.clone();
    // the two public readings of the step counters (trait methods / `steps_stats()`) agree
    if let Some(ss) = obs.st_struct {
        if ss != obs.st {
            out.push(Verdict {
                key: "stats-trait".into(),
                msg: format!("step counters (passed, skipped, failed, retried): steps_stats() says {ss:?}, the Stats trait methods say {:?}", obs.st),
            });
        }
    }
    // summary text: exactly one write, after run-Finished
    let writes: Vec<(usize, &String)> = seen
        .iter()
        .enumerate()
        .filter_map(|(i, s)| if let Seen::Write(w) = s { Some((i, w)) } else { None })
        .collect();
    if writes.len() != 1 {
        out.push(Verdict { key: "summary-writes".into(), msg: format!("{} summary writes", writes.len()) });
    } else {
        let (pos, text) = writes[0];
        let fin = seen.iter().position(|s| matches!(s, Seen::Event(Ev::Finished)));
        let right_after = match (nest, fin) {
            (_, None) => false,
            // the inner Repeat replays between Finished and the write
            (Nest::SumRepeatFailed, Some(f)) => pos > f,
            (_, Some(f)) => pos == f + 1,
        };
        if !right_after {
            out.push(Verdict {
                key: "summary-position".into(),
                msg: format!("summary written at position {pos}, run-Finished at {fin:?}"),
            });
        }
        if let Err(e) = parse_summary(text, &mut o) {
            out.push(Verdict { key: "summary-text".into(), msg: e });
        }
        // the text states the same numbers as the counters it is printed from
        match crate::h_report::parse_summary_full(text) {
            Ok(t) => {
                if (t.sc, t.st, t.parsing_errors, t.hook_errors) != (obs.sc, obs.st, obs.parsing_errors, obs.hook_errors) {
                    out.push(Verdict {
                        key: "summary-text".into(),
                        msg: format!(
                            "the summary text says scenarios {:?} steps {:?} parsing errors {} hook errors {}, the counters are {:?} {:?} {} {} (passed, skipped, failed, retried); text: {text:?}",
                            t.sc, t.st, t.parsing_errors, t.hook_errors, obs.sc, obs.st, obs.parsing_errors, obs.hook_errors
                        ),
                    });
                }
            }
            Err(e) => out.push(Verdict { key: "summary-text".into(), msg: e }),
        }
    }
    // replay after Finished changes nothing
    let mut fin_cmp = at_finish.clone();
    fin_cmp.features = o.features;
    fin_cmp.rules = o.rules;
    fin_cmp.summary_scenarios = o.summary_scenarios;
    fin_cmp.summary_steps = o.summary_steps;
    if fin_cmp != o {
        out.push(Verdict {
            key: "changed-after-finished".into(),
            msg: format!("counters at run-Finished {at_finish:?} differ from final {obs:?}"),
        });
    }
    let mut diffs = Vec::new();
    let mut cmp = |name: &str, got: usize, want: usize| {
        if got != want {
            diffs.push(format!("{name}: summary {got}, stream {want}"));
        }
    };
    cmp("steps.passed", o.st.0, want.st_passed);
    cmp("steps.skipped", o.st.1, want.st_skipped);
    cmp("steps.failed", o.st.2, want.st_failed);
    cmp("steps.retried", o.st.3, want.st_retried);
    cmp("parsing_errors", o.parsing_errors, want.parsing_errors);
    cmp("hook_errors", o.hook_errors, want.hook_errors);
    if let Some(f) = o.features {
        cmp("features", f, want.features);
    }
    if let Some(r) = o.rules {
        cmp("rules", r, want.rules);
    }
    if let Some(t) = o.summary_steps {
        cmp("summary steps total", t, want.st_passed + want.st_skipped + want.st_failed);
    }
    if !diffs.is_empty() {
        out.push(Verdict { key: "counters".into(), msg: diffs.join("; ") });
    }
    let mut sdiffs = Vec::new();
    let mut cmp = |name: &str, got: usize, want: usize| {
        if got != want {
            sdiffs.push(format!("{name}: summary {got}, stream {want}"));
        }
    };
    cmp("scenarios.passed", o.sc.0, want.sc_passed);
    cmp("scenarios.skipped", o.sc.1, want.sc_skipped);
    cmp("scenarios.failed", o.sc.2, want.sc_failed);
    if let Some(t) = o.summary_scenarios {
        cmp("summary scenarios total", t, o.sc.0 + o.sc.1 + o.sc.2);
    }
    if o.sc.3 > want.sc_retried_max {
        sdiffs.push(format!("scenarios.retried: summary {}, at most {}", o.sc.3, want.sc_retried_max));
    }
    if !sdiffs.is_empty() {
        out.push(Verdict { key: "scenario-classes".into(), msg: sdiffs.join("; ") });
    }
    out
}

// ------------------------------------------------------------------ grammar

fn kinds_one_odd(n: usize) -> Vec<Vec<StepKind>> {
    let mut v = vec![vec![M; n]];
    for i in 0..n {
        for k in [StepKind::NoMatch, StepKind::Ambiguous] {
            let mut x = vec![M; n];
            x[i] = k;
            v.push(x);
        }
    }
    v
}

fn chains_for(n: usize, ncallables: usize, has_after: bool, thorough: bool) -> Vec<Vec<Fault>> {
    let p = Outcome::PanicString;
    let mut firsts = vec![Fault::None];
    for i in 0..ncallables {
        firsts.push(Fault::Call(i, p));
    }
    let mut out = Vec::new();
    for f0 in &firsts {
        out.push(vec![*f0]);
        if n >= 1 && *f0 != Fault::None {
            let mut seconds = vec![Fault::None, *f0];
            if has_after {
                seconds.push(Fault::Call(ncallables - 1, p));
            }
            seconds.push(Fault::Call(0, p));
            if thorough {
                seconds = firsts.clone();
            }
            seconds.dedup();
            for f1 in &seconds {
                out.push(vec![*f0, *f1]);
                if n >= 2 && *f1 != Fault::None {
                    for f2 in [Fault::None, *f1] {
                        out.push(vec![*f0, *f1, f2]);
                    }
                }
            }
        }
    }
    out.sort_by_key(|c| format!("{c:?}"));
    out.dedup();
    out
}

pub fn u_set() -> Vec<ScenCase> {
    let p = Outcome::PanicString;
    let c = |steps: Vec<StepKind>, n: usize, chain: Vec<Fault>| ScenCase { steps, n, chain, allow_skipped: false };
    vec![
        c(vec![M], 0, vec![Fault::None]),
        c(vec![], 0, vec![Fault::None]),
        c(vec![StepKind::NoMatch], 0, vec![Fault::None]),
        c(vec![StepKind::Ambiguous], 0, vec![Fault::None]),
        // failure at the first callable (before hook if any, else the step), final
        c(vec![M], 0, vec![Fault::Call(0, p)]),
        // fails once then passes
        c(vec![M], 1, vec![Fault::Call(0, p), Fault::None]),
        // fails twice with budget 1
        c(vec![M], 1, vec![Fault::Call(0, p), Fault::Call(0, p)]),
        // last callable (after hook if any, else the step) fails once, then passes
        c(vec![M, M], 1, vec![Fault::Call(1, p), Fault::None]),
        c(vec![M, StepKind::NoMatch], 2, vec![Fault::Call(0, p), Fault::None]),
        c(vec![M], 2, vec![Fault::Call(0, p), Fault::Call(0, p), Fault::Call(0, p)]),
    ]
}

pub fn cases(thorough: bool) -> Vec<Case> {
    let mut out = Vec::new();
    let placements: &[Placement] = if thorough {
        &[Placement::SameAfter, Placement::SameBefore, Placement::OtherFeature, Placement::InRule]
    } else {
        &[Placement::SameAfter, Placement::InRule]
    };
    let perr_opts: &[usize] = if thorough { &[0, 1, 2] } else { &[0, 1] };
    let us = u_set();
    for fbg in [vec![], vec![M], vec![StepKind::NoMatch]] {
        for nsteps in 0..=2usize {
            for kinds in kinds_one_odd(nsteps) {
                for (before, after) in [(false, false), (true, false), (false, true), (true, true)] {
                    for n in 0..=2usize {
                        let ncall = usize::from(before)
                            + fbg.len()
                            + kinds.len()
                            + usize::from(after);
                        for chain in chains_for(n, ncall, after, thorough) {
                            for allow in [false, true] {
                                if allow && !kinds.contains(&StepKind::NoMatch) {
                                    continue;
                                }
                                let t = ScenCase { steps: kinds.clone(), n, chain: chain.clone(), allow_skipped: allow };
                                let mut us_opts: Vec<Option<(ScenCase, Placement)>> = vec![None];
                                for u in &us {
                                    for pl in placements {
                                        us_opts.push(Some((u.clone(), *pl)));
                                    }
                                }
                                for u in us_opts {
                                    for perrs in perr_opts {
                                        for transform in [Transform::None, Transform::Fos, Transform::Cut] {
                                            // interleaved layouts of the two scenarios (same feature)
                                            let t_attempts = chain.len();
                                            if transform != Transform::Cut
                                                && matches!(&u, Some((_, Placement::SameAfter | Placement::InRule)))
                                            {
                                                let mut merges = vec![Merge::Zip];
                                                for k in 0..t_attempts.saturating_sub(1) {
                                                    if k == 0 || thorough {
                                                        merges.push(Merge::UAfterAttempt(k));
                                                    }
                                                }
                                                for merge in merges {
                                                    out.push(Case {
                                                        perr_mid: false,
                                                        merge,
                                                        t: t.clone(),
                                                        u: u.clone(),
                                                        fbg: fbg.clone(),
                                                        before,
                                                        after,
                                                        perrs: *perrs,
                                                        transform,
                                                    });
                                                }
                                            }
                                            if *perrs > 0 && transform == Transform::None && u.is_none() {
                                                out.push(Case {
                                                    perr_mid: true,
                                                    merge: Merge::Seq,
                                                    t: t.clone(),
                                                    u: u.clone(),
                                                    fbg: fbg.clone(),
                                                    before,
                                                    after,
                                                    perrs: *perrs,
                                                    transform,
                                                });
                                            }
                                            out.push(Case {
                                                perr_mid: false,
                                                merge: Merge::Seq,
                                                t: t.clone(),
                                                u: u.clone(),
                                                fbg: fbg.clone(),
                                                before,
                                                after,
                                                perrs: *perrs,
                                                transform,
                                            });
                                        }
                                    }
                                }
                            }
                        }
                    }
                }
            }
        }
    }
    out
}

pub const NESTS: [Nest; 5] =
    [Nest::Sum, Nest::SumRepeatFailed, Nest::RepeatFailedSum, Nest::RepeatSkippedSum, Nest::RepeatAllSum];

/// Variants run per case: the four nestings over parsed features, plus plain
/// `Summarize` over the same features with every position erased (what a custom
/// parser building features programmatically hands over).
pub const VARIANTS: usize = 6;

/// The stream a variant feeds: the position-less variant stands for a custom parser and
/// runner, which (like the one in the book) emits no `ParsingFinished` at all - the parser
/// errors are then only present as the error items themselves.
pub fn variant_stream(stream: &[Ev], vi: usize) -> Vec<Ev> {
    stream.iter().filter(|e| vi < NESTS.len() || !matches!(e, Ev::ParsingFinished { .. })).cloned().collect()
}

pub fn variant(cfg: &Config, vi: usize) -> (Nest, Sources) {
    if vi < NESTS.len() {
        return (NESTS[vi], Sources::from_config(cfg));
    }
    let z = gherkin::LineCol { line: 0, col: 0 };
    let feats = cfg
        .feats
        .iter()
        .enumerate()
        .map(|(i, f)| {
            let mut f = f.parse(i);
            let steps = |v: &mut Vec<gherkin::Step>| v.iter_mut().for_each(|s| s.position = z);
            f.position = z;
            if let Some(bg) = &mut f.background {
                bg.position = z;
                steps(&mut bg.steps);
            }
            for sc in &mut f.scenarios {
                sc.position = z;
                steps(&mut sc.steps);
            }
            for r in &mut f.rules {
                r.position = z;
                if let Some(bg) = &mut r.background {
                    bg.position = z;
                    steps(&mut bg.steps);
                }
                for sc in &mut r.scenarios {
                    sc.position = z;
                    steps(&mut sc.steps);
                }
            }
            f
        })
        .collect();
    (Nest::Sum, Sources::from_features(feats))
}

/// Known-finding classification (DESIGN §7 D3): the stream has a `Hook::Failed`
/// and the only deviation is in the scenario classes.
/// The scenario classification *with the recorded defects left in*: the
/// reference recomputed with exactly the rules of the known findings changed
/// (a `Hook::Failed` is classified without looking at the retry counter; a
/// `Retried` mark is only cleared by the scenario's own last step passing and
/// shadows later hook failures). A deviation is attributed to a known finding
/// only if the observed classes equal this model, so any *other* change of the
/// classification is still a violation.
pub fn known_defect_model(stream: &[Ev], last_own_step: &BTreeMap<String, Option<String>>) -> (usize, usize, usize, usize) {
    #[derive(Clone, Copy, PartialEq)]
    enum Ind {
        Failed,
        Skipped,
        Retried,
    }
    let mut ind: BTreeMap<String, Ind> = BTreeMap::new();
    let (mut passed, mut skipped, mut failed, mut retried) = (0usize, 0usize, 0usize, 0usize);
    for e in stream {
        let Ev::Sc { s, retries, ev, .. } = e else { continue };
        match ev {
            ScEv::Step(bg, text, _, StepEv::Passed) => {
                if !*bg && last_own_step.get(s).and_then(|x| x.as_ref()) == Some(text) {
                    ind.remove(s);
                }
            }
            ScEv::Step(_, _, _, StepEv::Skipped) => {
                skipped += 1;
                ind.insert(s.clone(), Ind::Skipped);
            }
            ScEv::Step(_, _, _, StepEv::Failed(kind, _)) => {
                if retries.is_some_and(|(_, left)| left > 0) && kind != "NotFound" {
                    if ind.insert(s.clone(), Ind::Retried).is_none() {
                        retried += 1;
                    }
                } else {
                    failed += 1;
                    ind.insert(s.clone(), Ind::Failed);
                }
            }
            ScEv::Hook(_, HookEv::Failed(..)) => match ind.get(s) {
                Some(Ind::Failed | Ind::Retried) => {}
                Some(Ind::Skipped) => {
                    skipped -= 1;
                    failed += 1;
                }
                None => {
                    failed += 1;
                    ind.insert(s.clone(), Ind::Failed);
                }
            },
            ScEv::Finished => {
                let is_retried = ind.get(s) == Some(&Ind::Retried);
                if !is_retried && ind.remove(s).is_none() {
                    passed += 1;
                }
            }
            _ => {}
        }
    }
    (passed, skipped, failed, retried)
}

pub fn explain(
    stream: &[Ev],
    verdicts: &[Verdict],
    obs: &Observed,
    last_own_step: &BTreeMap<String, Option<String>>,
) -> Option<&'static str> {
    if verdicts.iter().any(|v| v.key != "scenario-classes") {
        return None;
    }
    if obs.sc != known_defect_model(stream, last_own_step) {
        return None;
    }
    {
        // `summarize-retried-no-own-steps`: scenarios without own steps whose retried
        // attempt was followed by a passing one are not counted as passed; nothing else differs.
        let want = recount(stream);
        let mut lost = 0usize;
        let mut names: Vec<&str> = Vec::new();
        for e in stream {
            if let Ev::Sc { s, .. } = e {
                if !names.contains(&s.as_str()) {
                    names.push(s);
                }
            }
        }
        for n in names {
            let evs: Vec<(&Option<(usize, usize)>, &ScEv)> = stream
                .iter()
                .filter_map(|e| match e {
                    Ev::Sc { s, retries, ev, .. } if s == n => Some((retries, ev)),
                    _ => None,
                })
                .collect();
            let own_steps = evs.iter().any(|(_, e)| matches!(e, ScEv::Step(false, ..)));
            let retried = evs.iter().any(|(r, e)| {
                matches!(e, ScEv::Step(true, _, _, StepEv::Failed(k, _)) if k != "NotFound") && !is_final(**r)
            });
            let last = evs.iter().rev().find(|(_, e)| **e == ScEv::Finished).map(|(r, _)| **r);
            let last_clean = last.is_some_and(|lr| {
                !evs.iter().any(|(r, e)| {
                    **r == lr && matches!(e, ScEv::Step(_, _, _, StepEv::Failed(..) | StepEv::Skipped))
                })
            });
            if !own_steps && retried && last_clean {
                lost += 1;
            }
        }
        if lost > 0
            && obs.sc.0 + lost == want.sc_passed
            && obs.sc.1 == want.sc_skipped
            && obs.sc.2 == want.sc_failed
            && obs.sc.3 <= want.sc_retried_max
        {
            return Some("summarize-retried-no-own-steps");
        }
    }
    if !stream.iter().any(|e| matches!(e, Ev::Sc { ev: ScEv::Hook(_, HookEv::Failed(..)), .. })) {
        return None;
    }
    let nonfinal_hook = stream.iter().any(|e| {
        matches!(e, Ev::Sc { retries: Some((_, left)), ev: ScEv::Hook(_, HookEv::Failed(..)), .. } if *left > 0)
    });
    if nonfinal_hook {
        return Some("summarize-hook-failed-nonfinal");
    }
    // final hook failure in a scenario that had a retried failure before
    let mut retried_before: Vec<&str> = Vec::new();
    for e in stream {
        if let Ev::Sc { s, retries, ev, .. } = e {
            match ev {
                ScEv::Step(_, _, _, StepEv::Failed(k, _)) if !is_final(*retries) && k != "NotFound" => {
                    retried_before.push(s);
                }
                ScEv::Hook(_, HookEv::Failed(..)) if is_final(*retries) && retried_before.contains(&s.as_str()) => {
                    return Some("summarize-hook-failed-after-retried");
                }
                _ => {}
            }
        }
    }
    None
}

pub fn run(a: &ShardArgs) -> serde_json::Value {
    let cases = cases(a.thorough);
    let mut evaluations = 0usize;
    let mut nontrivial = std::collections::HashSet::new();
    let mut violations: Vec<serde_json::Value> = Vec::new();
    let mut samples = Vec::new();
    let mut skipped = 0usize;
    let mut unrealisable = 0usize;
    let mut done = 0usize;
    let mut known: BTreeMap<String, usize> = BTreeMap::new();
    for (i, case) in cases.iter().enumerate() {
        if !a.mine(i) {
            continue;
        }
        if i % 512 == 0 {
            if a.out_of_time() {
                skipped += 1;
                continue;
            }
            a.beat(&format!("C12 case {i}: {case:?}"));
        } else if skipped > 0 {
            skipped += 1;
            continue;
        }
        if std::env::var_os("VERIF_DEBUG").is_some() {
            a.beat(&format!("C12 case {i}: {case:?}"));
        }
        let Some((cfg, stream)) = build(case) else {
            unrealisable += 1;
            continue;
        };
        done += 1;
        let full_stream = stream;
        for ni in 0..VARIANTS {
            let (nest, src) = variant(&cfg, ni);
            let nest = &nest;
            let stream = variant_stream(&full_stream, ni);
            let (obs, seen, at_fin) = run_nest(*nest, &src, &stream);
            evaluations += 1;
            // the inner writer must have seen the input unchanged (plus replays)
            let seen_events: Vec<Ev> = seen
                .iter()
                .filter_map(|s| if let Seen::Event(e) = s { Some(erase(e)) } else { None })
                .collect();
            let mut vs = check(*nest, &stream, &obs, &seen, &at_fin);
            if seen_events.len() < stream.len() || seen_events[..stream.len()] != stream[..] {
                vs.push(Verdict { key: "not-transparent".into(), msg: "inner writer did not see the input stream".into() });
            }
            // non-trivial: has a retry, a hook failure, a skip or a parser error
            let h = {
                use std::hash::{Hash, Hasher};
                let mut hh = std::collections::hash_map::DefaultHasher::new();
                stream.hash(&mut hh);
                hh.finish()
            };
            if stream.iter().any(|e| matches!(e, Ev::ParseErr(_))
                || matches!(e, Ev::Sc { retries: Some(_), .. })
                || matches!(e, Ev::Sc { ev: ScEv::Hook(_, HookEv::Failed(..)), .. })
                || matches!(e, Ev::Sc { ev: ScEv::Step(_, _, _, StepEv::Skipped | StepEv::Failed(..)), .. }))
            {
                nontrivial.insert(h);
            }
            if !vs.is_empty() {
                let last_own: BTreeMap<String, Option<String>> = cfg
                    .scen_infos()
                    .iter()
                    .map(|i| (i.name.clone(), i.calls.iter().rev().find(|c| !c.is_bg).map(|c| c.text.clone())))
                    .collect();
                let finding = explain(&stream, &vs, &obs, &last_own);
                if let Some(f) = finding {
                    *known.entry(f.to_owned()).or_default() += 1;
                }
                let cap_ok = match finding {
                    Some(f) => violations.iter().filter(|v| v["finding"] == f).count() < 3,
                    None => violations.len() < 60,
                };
                if cap_ok {
                    violations.push(json!({
                        "engine": "hist", "property": "C12", "tier": a.tier,
                        "case_index": i, "nest_index": ni, "nest": format!("{nest:?}{}", if ni >= NESTS.len() { " over position-less features" } else { "" }),
                        "key": vs.iter().map(|v| v.key.clone()).collect::<Vec<_>>().join("+"),
                        "message": vs.iter().map(|v| format!("[{}] {}", v.key, v.msg)).collect::<Vec<_>>().join(" | "),
                        "finding": finding,
                        "case": format!("{case:?}"),
                        "stream": stream.iter().map(Ev::short).collect::<Vec<_>>(),
                    }));
                }
            }
            if samples.len() < 2 && stream.len() > 14 && ni == 0 {
                samples.push(json!({
                    "case": format!("{case:?}"),
                    "stream": stream.iter().map(Ev::short).collect::<Vec<_>>(),
                    "observed": format!("{obs:?}"),
                }));
            }
        }
    }
    // runs without any feature: nothing at all, or parser errors only (the summary is still
    // written, once, right after run-Finished, and states the errors)
    if a.mine(3) {
        for (xi, stream) in degenerate_streams().iter().enumerate() {
            let cfg = Config::default();
            for ni in 0..VARIANTS {
                let (nest, src) = variant(&cfg, ni);
                let stream = variant_stream(stream, ni);
                let (obs, seen, at_fin) = run_nest(nest, &src, &stream);
                evaluations += 1;
                let vs = check(nest, &stream, &obs, &seen, &at_fin);
                if !vs.is_empty() {
                    violations.push(json!({
                        "engine": "hist", "property": "C12", "tier": a.tier,
                        "extra_index": xi, "nest_index": ni, "nest": format!("{nest:?}"),
                        "key": vs.iter().map(|v| v.key.clone()).collect::<Vec<_>>().join("+"),
                        "message": vs.iter().map(|v| format!("[{}] {}", v.key, v.msg)).collect::<Vec<_>>().join(" | "),
                        "finding": serde_json::Value::Null,
                        "stream": stream.iter().map(Ev::short).collect::<Vec<_>>(),
                    }));
                }
            }
        }
    }
    json!({
        "property": "C12", "tier": a.tier,
        "total_configs": cases.len(), "configs_done": done, "configs_skipped_budget": skipped,
        "evaluations": evaluations, "distinct_nontrivial": nontrivial.len(),
        "rule": "every case of the grammar (scenario shape x hooks x retry budget x fault chain x second scenario x placement x layout of the two scenarios in the raw stream (sequential, U between two attempts of T, events alternating) x parser errors x transform) through 5 nestings of Summarize/Repeat (one replaying the whole stream, run-Finished included), plus plain Summarize over the same features with all positions erased (programmatically built features); non-trivial = distinct streams containing a retry, a failure, a skip or a parser error",
        "exhaustive": skipped == 0,
        "details": {"unrealisable_cases": unrealisable, "known_finding_hits": known},
        "violations": violations, "samples": samples,
    })
}

/// Streams of runs that contain no feature at all.
pub fn degenerate_streams() -> Vec<Vec<Ev>> {
    let pf = |n: usize| Ev::ParsingFinished { features: 0, rules: 0, scenarios: 0, steps: 0, parser_errors: n };
    vec![
        vec![Ev::Started, pf(0), Ev::Finished],
        vec![Ev::Started, Ev::ParseErr("e0".into()), pf(1), Ev::Finished],
        vec![Ev::Started, Ev::ParseErr("e0".into()), Ev::ParseErr("e1".into()), pf(2), Ev::Finished],
    ]
}

pub fn replay(j: &serde_json::Value) -> i32 {
    if let Some(xi) = j["extra_index"].as_u64() {
        let ni = j["nest_index"].as_u64().unwrap() as usize;
        let cfg = Config::default();
        let (nest, src) = variant(&cfg, ni);
        let stream = variant_stream(&degenerate_streams()[xi as usize], ni);
        let (obs, seen, at_fin) = run_nest(nest, &src, &stream);
        let vs = check(nest, &stream, &obs, &seen, &at_fin);
        for v in &vs {
            println!("violation C12 [{}]: {}", v.key, v.msg);
        }
        return i32::from(!vs.is_empty());
    }
    let thorough = j["tier"].as_str() == Some("thorough");
    let idx = j["case_index"].as_u64().unwrap() as usize;
    let ni = j["nest_index"].as_u64().unwrap() as usize;
    let cs = cases(thorough);
    let case = &cs[idx];
    let Some((cfg, stream)) = build(case) else { return 2 };
    let (nest, src) = variant(&cfg, ni);
    let stream = variant_stream(&stream, ni);
    println!("{case:?}\nnest {nest:?} (variant {ni})");
    for e in &stream {
        println!("  {}", e.short());
    }
    let (obs, seen, at_fin) = run_nest(nest, &src, &stream);
    println!("observed {obs:?}\nrecount  {:?}", recount(&stream));
    for s in &seen {
        if let Seen::Write(w) = s {
            println!("--- summary text\n{w}");
        }
    }
    let vs = check(nest, &stream, &obs, &seen, &at_fin);
    for v in &vs {
        println!("violation C12 [{}]: {}", v.key, v.msg);
    }
    i32::from(!vs.is_empty())
}
