//! C14: built-in reporters, their output parsed back by independent parsers
//! (`tools/parse_reports.py`: json, xml.etree, a line parser) and compared with
//! the facts of the event stream.

use std::{io::Write as _, path::PathBuf};

use cucumber::{
    cli,
    writer::{self, Coloring, Json, JUnit, Libtest},
    WriterExt as _,
};
use serde_json::json;

use crate::{
    canon::{Ev, HookEv, HookKind, ScEv, StepEv},
    h_sum::{self, Case, Transform},
    hist::ShardArgs,
    hs::TW,
    pipe::SharedBuf,
    rec::{feed, Sources},
    spec::Config,
};

#[derive(Clone, Copy, Debug, PartialEq, Eq)]
pub enum Decoration {
    Plain,
    /// quotes, markup and non-ASCII in every name and step text
    Special,
    /// both scenarios carry the same name (different lines)
    SameNames,
    /// special names, doc strings and tables on the steps, Log events in the
    /// stream, a World on every failure, verbosity 2
    Rich,
    /// every feature carries the same name; the first one has no path and the
    /// others have one (`path == true`) or the other way round
    DupFeatures,
    /// every feature carries the same name and none has a path (the same feature
    /// text handed over twice)
    DupPathless,
    /// every feature carries the same name; the first one lies inside the project directory
    /// (absolute path, displayed relative to it) and the others in a mirror of the tree that
    /// merely *contains* the project directory's path (displayed in full)
    MirrorPaths,
    /// plain names, but every rule is unnamed (`Rule:` with an empty name)
    UnnamedRules,
    /// every position moved down by 97 lines (two- and three-digit line numbers)
    /// and names / step texts carrying format and regex metacharacters
    BigLines,
}

#[derive(Clone, Copy, Debug)]
pub struct Opts {
    pub path: bool,
    pub deco: Decoration,
    pub libtest_show_output: bool,
    pub libtest_report_time: bool,
    pub verbosity: u8,
}

fn special(s: &str) -> String {
    format!("{s} \"q\" 'a' <m> & é")
}

fn meta(s: &str) -> String {
    format!("{s} {{}} {{0}} %s $1 \\n [z]* (y)+ a|b ^$ #x :")
}

/// The directory the reporters display paths relative to (as `writer::basic::trim_path` finds it).
pub fn project_dir() -> String {
    std::env::var("CARGO_WORKSPACE_DIR")
        .or_else(|_| std::env::var("CARGO_MANIFEST_DIR"))
        .unwrap_or_else(|_| std::env::current_dir().map(|p| p.display().to_string()).unwrap_or_default())
}

/// A feature path as the reports state it: the project directory trimmed off its *start*.
pub fn displayed_path(p: &str) -> String {
    p.trim_start_matches(project_dir().as_str()).trim_start_matches('/').trim_start_matches('\\').to_owned()
}

/// Parses the configuration's features and decorates names / paths.
pub fn decorated_sources(cfg: &Config, o: &Opts) -> Sources {
    let mut feats: Vec<gherkin::Feature> =
        cfg.feats.iter().enumerate().map(|(i, f)| f.parse(i)).collect();
    let mut key_feats = Vec::new();
    for (i, f) in feats.iter_mut().enumerate() {
        key_feats.push(f.name.clone());
        let has_path = match o.deco {
            Decoration::DupFeatures => (i == 0) != o.path,
            Decoration::DupPathless => false,
            _ => o.path,
        };
        if has_path && o.deco == Decoration::MirrorPaths {
            let proj = project_dir();
            f.path = Some(PathBuf::from(if i == 0 {
                format!("{proj}/feat/m é.feature")
            } else {
                format!("/mirror{i}{proj}/feat/m é.feature")
            }));
        } else if has_path {
            f.path = Some(PathBuf::from(format!("feat/f{i} é.feature")));
        }
    }
    if o.deco == Decoration::BigLines {
        let sh = |p: &mut gherkin::LineCol| p.line += 97;
        for f in &mut feats {
            sh(&mut f.position);
            let steps = |v: &mut Vec<gherkin::Step>| v.iter_mut().for_each(|s| s.position.line += 97);
            if let Some(bg) = &mut f.background {
                sh(&mut bg.position);
                steps(&mut bg.steps);
            }
            for sc in &mut f.scenarios {
                sh(&mut sc.position);
                steps(&mut sc.steps);
            }
            for r in &mut f.rules {
                sh(&mut r.position);
                if let Some(bg) = &mut r.background {
                    sh(&mut bg.position);
                    steps(&mut bg.steps);
                }
                for sc in &mut r.scenarios {
                    sh(&mut sc.position);
                    steps(&mut sc.steps);
                }
            }
        }
    }
    let src = Sources::from_features(feats.clone());
    // decorate clones, then rebuild the maps under the ORIGINAL keys
    let mut out = Sources {
        feats: Default::default(),
        rules: Default::default(),
        scens: Default::default(),
        steps: Default::default(),
    };
    let deco_name = |name: &str, is_scen: bool| -> String {
        match o.deco {
            Decoration::Plain | Decoration::UnnamedRules => name.to_owned(),
            Decoration::DupFeatures | Decoration::MirrorPaths => name.to_owned(),
            // equal by value to the first feature's entities
            Decoration::DupPathless => name.replacen("F2", "F1", 1),
            Decoration::BigLines => meta(name),
            Decoration::Special | Decoration::Rich => special(name),
            Decoration::SameNames => {
                if is_scen {
                    "same name".to_owned()
                } else {
                    name.to_owned()
                }
            }
        }
    };
    let deco_step = |st: &mut gherkin::Step| {
        if o.deco == Decoration::Special || o.deco == Decoration::Rich {
            st.value = special(&st.value);
        }
        if o.deco == Decoration::BigLines {
            st.value = meta(&st.value);
        }
        if o.deco == Decoration::DupPathless {
            st.value = st.value.replacen("F2", "F1", 1);
        }
        if o.deco == Decoration::Rich {
            st.docstring = Some("doc line 1\n  <doc> \"line\" 2 & é".into());
            st.table = Some(gherkin::Table {
                rows: vec![vec!["h1".into(), "h <2>".into()], vec!["é".into(), "\"v\" & w".into()]],
                span: gherkin::Span { start: 0, end: 0 },
                position: gherkin::LineCol { line: 1, col: 1 },
            });
        }
    };
    for mut f in feats {
        let key = f.name.clone();
        f.name = if matches!(o.deco, Decoration::DupFeatures | Decoration::DupPathless | Decoration::MirrorPaths) {
            "Dup".to_owned()
        } else {
            deco_name(&key, false)
        };
        if let Some(bg) = f.background.as_mut() {
            for st in &mut bg.steps {
                let k = st.value.clone();
                deco_step(st);
                out.steps.insert(k, cucumber::event::Source::new(st.clone()));
            }
        }
        for sc in &mut f.scenarios {
            let k = sc.name.clone();
            sc.name = deco_name(&k, true);
            for st in &mut sc.steps {
                let sk = st.value.clone();
                deco_step(st);
                out.steps.insert(sk, cucumber::event::Source::new(st.clone()));
            }
            out.scens.insert(k, cucumber::event::Source::new(sc.clone()));
        }
        for r in &mut f.rules {
            let rk = r.name.clone();
            r.name = if o.deco == Decoration::UnnamedRules { String::new() } else { deco_name(&rk, false) };
            if let Some(bg) = r.background.as_mut() {
                for st in &mut bg.steps {
                    let k = st.value.clone();
                    deco_step(st);
                    out.steps.insert(k, cucumber::event::Source::new(st.clone()));
                }
            }
            for sc in &mut r.scenarios {
                let k = sc.name.clone();
                sc.name = deco_name(&k, true);
                for st in &mut sc.steps {
                    let sk = st.value.clone();
                    deco_step(st);
                    out.steps.insert(sk, cucumber::event::Source::new(st.clone()));
                }
                out.scens.insert(k, cucumber::event::Source::new(sc.clone()));
            }
            out.rules.insert(rk, cucumber::event::Source::new(r.clone()));
        }
        out.feats.insert(key, cucumber::event::Source::new(f));
    }
    let _ = src;
    out
}

/// The announcement a stream makes about itself (its `ParsingFinished` event), if any.
pub fn announced(stream: &[Ev]) -> serde_json::Value {
    stream
        .iter()
        .find_map(|e| match e {
            Ev::ParsingFinished { features, rules, scenarios, steps, parser_errors } => Some(json!({
                "features": features, "rules": rules, "scenarios": scenarios, "steps": steps,
                "parser_errors": parser_errors,
            })),
            _ => None,
        })
        .unwrap_or(serde_json::Value::Null)
}

/// The facts of the stream (what the reports must state).
pub fn facts(src: &Sources, stream: &[Ev]) -> Vec<serde_json::Value> {
    let mut out = Vec::new();
    let mut perr = 0;
    for e in stream {
        match e {
            Ev::ParseErr(tag) => {
                perr += 1;
                out.push(json!({"kind": "parse-error", "message": tag, "ordinal": perr}));
            }
            Ev::Sc { f, r, s, retries, ev, .. } => {
                let feat = &src.feats[f];
                let scen = &src.scens[s];
                let rule = r.as_ref().map(|r| &src.rules[r]);
                let base = json!({
                    "feature": feat.name, "feature_keyword": feat.keyword,
                    "path": feat.path.as_ref().map(|p| displayed_path(&p.to_string_lossy())),
                    "rule": rule.map(|r| r.name.clone()), "rule_line": rule.map(|r| r.position.line),
                    "rule_keyword": rule.map(|r| r.keyword.clone()),
                    "scenario": scen.name, "scenario_keyword": scen.keyword,
                    "scenario_line": scen.position.line, "scenario_col": scen.position.col,
                    "attempt": retries.map_or(0, |r| r.0),
                    "attempts_total": retries.map(|r| r.0 + r.1),
                    "retries_left": retries.map(|r| r.1),
                });
                let mut fact = base;
                match ev {
                    ScEv::Step(bg, text, _, st) => {
                        let (status, msg, not_found) = match st {
                            StepEv::Started => continue,
                            StepEv::Passed => ("passed", None, false),
                            StepEv::Skipped => ("skipped", None, false),
                            StepEv::Failed(k, _) if k == "NotFound" => ("undefined", None, true),
                            StepEv::Failed(k, _) if k.starts_with("Ambiguous") => ("ambiguous", None, false),
                            StepEv::Failed(k, _) => ("failed", Some(k.clone()), false),
                        };
                        let step = &src.steps[text];
                        fact["kind"] = json!(if *bg { "bg" } else { "step" });
                        fact["keyword"] = json!(step.keyword);
                        fact["text"] = json!(step.value);
                        fact["line"] = json!(step.position.line);
                        fact["col"] = json!(step.position.col);
                        fact["status"] = json!(status);
                        fact["message"] = json!(msg);
                        let is_failure = matches!(st, StepEv::Failed(..));
                        fact["final_failure"] = json!(
                            is_failure && (not_found || retries.is_none_or(|r| r.1 == 0))
                        );
                    }
                    ScEv::Hook(k, HookEv::Failed(p, _)) => {
                        fact["kind"] = json!("hook");
                        fact["hook"] = json!(if *k == HookKind::Before { "Before" } else { "After" });
                        fact["status"] = json!("failed");
                        fact["message"] = json!(p);
                        fact["final_failure"] = json!(true);
                    }
                    _ => continue,
                }
                out.push(fact);
            }
            _ => {}
        }
    }
    out
}

/// Scenario attempts in stream order (for JUnit test cases).
pub fn attempts(src: &Sources, stream: &[Ev]) -> Vec<serde_json::Value> {
    let mut out: Vec<serde_json::Value> = Vec::new();
    for e in stream {
        if let Ev::Sc { f, r, s, retries, ev: ScEv::Finished, .. } = e {
            let scen = &src.scens[s];
            out.push(json!({
                "feature": src.feats[f].name,
                "rule": r.as_ref().map(|r| src.rules[r].name.clone()),
                "scenario": scen.name, "scenario_line": scen.position.line, "scenario_col": scen.position.col,
                "attempt": retries.map_or(0, |r| r.0),
            }));
        }
    }
    out
}

pub struct Outputs {
    pub basic: String,
    pub libtest: String,
    pub json: String,
    pub junit: String,
}

pub fn render(src: &Sources, stream: &[Ev], o: &Opts) -> Result<Outputs, String> {
    crate::rec::WITH_WORLD.with(|w| w.set(o.deco == Decoration::Rich));
    // Log events after every step / hook Started (they are not facts)
    let with_logs: Vec<Ev>;
    let stream: &[Ev] = if o.deco == Decoration::Rich {
        let mut v = Vec::new();
        let mut n = 0;
        for e in stream {
            v.push(e.clone());
            if let Ev::Sc { f, r, s, retries, ev, .. } = e {
                if matches!(ev, ScEv::Step(_, _, _, StepEv::Started) | ScEv::Hook(_, HookEv::Started)) {
                    n += 1;
                    v.push(crate::rec::sc(f, r.as_deref(), s, *retries, ScEv::Log(format!("LOG {n} <l> & \"q\"\n"))));
                }
            }
        }
        with_logs = v;
        &with_logs
    } else {
        stream
    };
    let run = || {
        let (b, l, j, x) =
            (SharedBuf::default(), SharedBuf::default(), SharedBuf::default(), SharedBuf::default());
        let mut wb = writer::Basic::raw(b.clone(), Coloring::Never, o.verbosity).normalized::<TW>().summarized();
        let mut wl = Libtest::<TW, _>::new(l.clone());
        let mut wj = Json::new::<TW>(j.clone());
        let mut wx = JUnit::<TW, _>::new(x.clone(), o.verbosity);
        let bcli = writer::basic::Cli { verbose: o.verbosity + 1, color: Coloring::Never };
        let lcli = writer::libtest::Cli {
            format: None,
            show_output: o.libtest_show_output,
            report_time: o.libtest_report_time.then_some(writer::libtest::ReportTime::Plain),
            nightly: None,
        };
        let xcli = writer::junit::Cli { verbose: Some(o.verbosity) };
        for ev in stream {
            let item = src.realize(ev);
            // (each reporter gets exactly one clone of the item, like the left arm of a `Tee`)
            crate::rec::feed_ref(&mut wb, &item, &bcli);
            crate::rec::feed_ref(&mut wl, &item, &lcli);
            crate::rec::feed_ref(&mut wj, &item, &cli::Empty);
            crate::rec::feed_ref(&mut wx, &item, &xcli);
        }
        Outputs { basic: b.text(), libtest: l.text(), json: j.text(), junit: x.text() }
    };
    std::panic::catch_unwind(std::panic::AssertUnwindSafe(run)).map_err(|p| {
        p.downcast_ref::<String>()
            .cloned()
            .or_else(|| p.downcast_ref::<&str>().map(|s| (*s).to_owned()))
            .unwrap_or_else(|| "reporter panicked".into())
    })
}

/// Splits the terminal output into the per-entity part and the `[Summary]` block.
pub fn split_summary(basic: &str) -> (String, Option<String>) {
    match basic.rfind("[Summary]") {
        Some(i) => (basic[..i].to_owned(), Some(basic[i..].trim_end().to_owned())),
        None => (basic.to_owned(), None),
    }
}

/// Reads every number of the `[Summary]` block (independent of `Summarize`'s accessors).
pub fn parse_summary_full(text: &str) -> Result<h_sum::Observed, String> {
    fn classes(line: &str) -> Result<(usize, usize, usize, usize), String> {
        let mut c = (0, 0, 0, 0);
        let Some(i) = line.find(" (") else { return Ok(c) };
        let inner = line[i + 2..].strip_suffix(')').ok_or_else(|| format!("unbalanced: {line:?}"))?;
        let (main, retr) = match inner.split_once(" with ") {
            Some((m, r)) => (m, Some(r)),
            None => (inner, None),
        };
        for part in main.split(", ").filter(|p| !p.is_empty()) {
            let (n, what) = part.split_once(' ').ok_or_else(|| format!("bad class {part:?}"))?;
            let n: usize = n.parse().map_err(|_| format!("bad number in {part:?}"))?;
            match what {
                "passed" => c.0 = n,
                "skipped" => c.1 = n,
                "failed" => c.2 = n,
                o => return Err(format!("unknown class {o:?}")),
            }
        }
        if let Some(r) = retr {
            let (n, what) = r.split_once(' ').ok_or_else(|| format!("bad retries {r:?}"))?;
            if what != "retry" && what != "retries" {
                return Err(format!("bad retries {r:?}"));
            }
            c.3 = n.parse().map_err(|_| format!("bad number in {r:?}"))?;
        }
        Ok(c)
    }
    let mut o = h_sum::Observed::default();
    let mut lines = text.lines();
    if lines.next() != Some("[Summary]") {
        return Err(format!("no [Summary] header: {text:?}"));
    }
    for l in lines {
        let head = l.split(" (").next().unwrap_or(l);
        let num = || -> Result<usize, String> {
            l.split_whitespace().next().and_then(|n| n.parse().ok()).ok_or_else(|| format!("no number: {l:?}"))
        };
        if head.contains("parsing error") || head.contains("hook error") {
            for part in l.split(", ") {
                let n: usize = part
                    .split_whitespace()
                    .next()
                    .and_then(|n| n.parse().ok())
                    .ok_or_else(|| format!("no number: {part:?}"))?;
                if part.contains("parsing error") {
                    o.parsing_errors = n;
                } else if part.contains("hook error") {
                    o.hook_errors = n;
                } else {
                    return Err(format!("unknown part {part:?}"));
                }
            }
        } else if head.contains("feature") {
            o.features = Some(num()?);
        } else if head.contains("rule") {
            o.rules = Some(num()?);
        } else if head.contains("scenario") {
            o.summary_scenarios = Some(num()?);
            o.sc = classes(l)?;
        } else if head.contains("step") {
            o.summary_steps = Some(num()?);
            o.st = classes(l)?;
        } else if !l.trim().is_empty() {
            return Err(format!("unknown summary line {l:?}"));
        }
    }
    Ok(o)
}

/// The terminal `[Summary]` against a recount of the stream; the deviations of the
/// recorded `Summarize` defects are attributed by the exact model of `h_sum`.
pub fn check_terminal_summary(
    cfg: &Config,
    stream: &[Ev],
    summary: Option<&str>,
) -> Option<(String, Option<&'static str>)> {
    use crate::rec::Seen;
    let Some(text) = summary else {
        return Some(("the terminal output has no [Summary] block".into(), None));
    };
    let obs = match parse_summary_full(text) {
        Ok(o) => o,
        Err(e) => return Some((format!("the [Summary] block does not parse: {e}"), None)),
    };
    let seen = vec![Seen::Event(Ev::Finished), Seen::Write(text.to_owned())];
    let vs = h_sum::check(h_sum::Nest::Sum, stream, &obs, &seen, &obs);
    if vs.is_empty() {
        return None;
    }
    let last_own: std::collections::BTreeMap<String, Option<String>> = cfg
        .scen_infos()
        .iter()
        .map(|i| (i.name.clone(), i.calls.iter().rev().find(|c| !c.is_bg).map(|c| c.text.clone())))
        .collect();
    let finding = h_sum::explain(stream, &vs, &obs, &last_own);
    let msg = vs.iter().map(|v| format!("[{}] {}", v.key, v.msg)).collect::<Vec<_>>().join(" | ");
    Some((format!("terminal [Summary] disagrees with the entries of the run: {msg}; summary was {text:?}"), finding))
}

pub fn opt_sets(thorough: bool) -> Vec<Opts> {
    let mut v = Vec::new();
    for path in [true, false] {
        for deco in [
            Decoration::Plain,
            Decoration::Special,
            Decoration::SameNames,
            Decoration::Rich,
            Decoration::DupFeatures,
            Decoration::DupPathless,
            Decoration::MirrorPaths,
            Decoration::UnnamedRules,
            Decoration::BigLines,
        ] {
            if (deco == Decoration::DupPathless && path) || (deco == Decoration::MirrorPaths && !path) {
                continue;
            }
            if deco == Decoration::Rich {
                v.push(Opts { path, deco, libtest_show_output: true, libtest_report_time: false, verbosity: 2 });
                continue;
            }
            let combos: &[(bool, bool, u8)] = if thorough {
                &[(false, false, 0), (true, false, 1), (false, true, 0), (true, true, 1)]
            } else if deco == Decoration::Plain {
                &[(false, false, 0), (true, true, 1)]
            } else {
                &[(true, false, 0)]
            };
            for (so, rt, vb) in combos {
                v.push(Opts { path, deco, libtest_show_output: *so, libtest_report_time: *rt, verbosity: *vb });
            }
        }
    }
    v
}

/// Streams of the C12 grammar, thinned to the ones relevant for reports.
pub fn cases(thorough: bool) -> Vec<Case> {
    // the (quick) C12 grammar; the quick tier thins it, the thorough tier takes all of it
    h_sum::cases(false)
        .into_iter()
        .filter(|c| c.transform != Transform::Cut)
        .enumerate()
        .filter(|(i, c)| {
            // thinning by a mixing hash of the index (a plain modulus aliases with the
            // innermost loops of the grammar and would drop whole dimensions)
            let h = (*i as u64).wrapping_mul(0x9E37_79B9_7F4A_7C15) >> 33;
            thorough
                || (c.u.is_none() && h % 2 == 0)
                || (c.merge == h_sum::Merge::Seq && h % 24 == 0)
                || h % 96 == 0
        })
        .map(|(_, c)| c)
        .collect::<Vec<_>>()
        .into_iter()
        .flat_map(|c| {
            // the second scenario in a feature of its own as well
            let other = match &c.u {
                Some((u, h_sum::Placement::SameAfter)) if c.merge == h_sum::Merge::Seq => {
                    Some(Case { u: Some((u.clone(), h_sum::Placement::OtherFeature)), ..c.clone() })
                }
                _ => None,
            };
            std::iter::once(c).chain(other)
        })
        .collect()
}

/// Runs the independent parsers on one batch file and folds the result in.
fn parse_batch(
    jsonl: &std::path::Path,
    result: &std::path::Path,
    a: &ShardArgs,
    violations: &mut Vec<serde_json::Value>,
    per_key: &mut std::collections::BTreeMap<String, usize>,
) -> usize {
    let st = std::process::Command::new("python3")
        .arg("tools/parse_reports.py")
        .arg(jsonl)
        .arg(result)
        .status();
    let mut parsed_ok = 0usize;
    match st {
        Ok(s) if s.success() => {
            let j: serde_json::Value =
                serde_json::from_str(&std::fs::read_to_string(result).expect("parsed")).expect("json");
            parsed_ok = j["records"].as_u64().unwrap_or(0) as usize;
            for v in j["violations"].as_array().cloned().unwrap_or_default() {
                let k = format!("{}|{}", v["key"], v["finding"]);
                let n = per_key.entry(k).or_default();
                *n += 1;
                if *n <= 3 {
                    let mut v = v;
                    v["engine"] = json!("hist");
                    v["property"] = json!("C14");
                    v["tier"] = json!(a.tier);
                    violations.push(v);
                }
            }
        }
        other => {
            eprintln!("parse_reports.py failed: {other:?}");
            std::process::exit(3);
        }
    }
    let _ = std::fs::remove_file(jsonl);
    let _ = std::fs::remove_file(result);
    parsed_ok
}

const BATCH: usize = 2000;

pub fn run(a: &ShardArgs) -> serde_json::Value {
    let cs = cases(a.thorough);
    let osets = opt_sets(a.thorough);
    let dir = std::path::Path::new("evidence/.shards/C14");
    let _ = std::fs::create_dir_all(dir);
    let jsonl = dir.join(format!("{}.cases.jsonl", a.si));
    let result = dir.join(format!("{}.parsed.json", a.si));
    let mut file = std::io::BufWriter::new(std::fs::File::create(&jsonl).expect("jsonl"));
    let mut in_batch = 0usize;
    let mut parsed_ok = 0usize;
    let mut per_key = std::collections::BTreeMap::new();
    let mut evaluations = 0usize;
    let mut nontrivial = std::collections::HashSet::new();
    let mut skipped = 0usize;
    let mut violations: Vec<serde_json::Value> = Vec::new();
    let mut n = 0usize;
    let mut samples = Vec::new();
    for (ci, case) in cs.iter().enumerate() {
        let Some((cfg, stream)) = h_sum::build(case) else { continue };
        for (oi, o) in osets.iter().enumerate() {
            n += 1;
            if !a.mine(n) {
                continue;
            }
            if n % 128 == 0 && a.out_of_time() {
                skipped += 1;
            }
            if skipped > 0 {
                skipped += 1;
                continue;
            }
            if o.deco == Decoration::SameNames && case.u.is_none() {
                continue;
            }
            if matches!(o.deco, Decoration::DupFeatures | Decoration::DupPathless | Decoration::MirrorPaths)
                && !matches!(case.u, Some((_, h_sum::Placement::OtherFeature)))
            {
                continue;
            }
            let src = decorated_sources(&cfg, o);
            // the twin features come from a parser that finishes late: ParsingFinished arrives
            // after their events (reporters that buffer until then must still tell them apart)
            let late_pf: Vec<Ev>;
            let stream: &Vec<Ev> = if o.deco == Decoration::DupPathless {
                let mut v = stream.clone();
                if let Some(i) = v.iter().position(|e| matches!(e, Ev::ParsingFinished { .. })) {
                    let pf = v.remove(i);
                    let fin = v.iter().position(|e| *e == Ev::Finished).unwrap_or(v.len());
                    v.insert(fin, pf);
                }
                late_pf = v;
                &late_pf
            } else {
                &stream
            };
            evaluations += 1;
            let fx = facts(&src, &stream);
            if fx.iter().any(|f| f["status"] != "passed") {
                use std::hash::{Hash, Hasher};
                let mut h = std::collections::hash_map::DefaultHasher::new();
                stream.hash(&mut h);
                (oi, h.finish()).hash(&mut h);
                nontrivial.insert(h.finish());
            }
            match render(&src, &stream, o) {
                Err(msg) => violations.push(json!({
                    "engine": "hist", "property": "C14", "tier": a.tier, "key": "reporter-panicked",
                    "case_index": ci, "opts_index": oi,
                    "message": format!("a reporter panicked on a contract-abiding stream: {msg}"),
                    "finding": serde_json::Value::Null,
                })),
                Ok(mut out) => {
                    let (body, summary) = split_summary(&out.basic);
                    out.basic = body;
                    if let Some((msg, finding)) = check_terminal_summary(&cfg, &stream, summary.as_deref()) {
                        let k = format!("\"terminal-summary\"|{finding:?}");
                        let n = per_key.entry(k).or_default();
                        *n += 1;
                        if *n <= 3 {
                            violations.push(json!({
                                "engine": "hist", "property": "C14", "tier": a.tier, "key": "terminal-summary",
                                "case_index": ci, "opts_index": oi, "message": msg, "finding": finding,
                            }));
                        }
                    }
                    let rec = json!({
                        "case_index": ci, "opts_index": oi,
                        "opts": {"path": o.path, "deco": format!("{:?}", o.deco), "show_output": o.libtest_show_output,
                                 "report_time": o.libtest_report_time, "verbosity": o.verbosity},
                        // the reports sit behind `Normalize`: their cases follow the normalised order
                        "announced": announced(&stream),
                        "facts": fx, "attempts": attempts(&src, &{
                            let mut r = crate::h_norm::RefNorm::default();
                            for e in stream.iter() {
                                r.handle(e.clone());
                            }
                            r.out
                        }),
                        "basic": out.basic, "libtest": out.libtest, "json": out.json, "junit": out.junit,
                    });
                    if samples.len() < 1 && fx.len() > 4 && o.deco == Decoration::Special {
                        samples.push(json!({"stream": stream.iter().map(Ev::short).collect::<Vec<_>>(),
                            "terminal": rec["basic"], "libtest": rec["libtest"]}));
                    }
                    writeln!(file, "{rec}").expect("write jsonl");
                    in_batch += 1;
                    if in_batch >= BATCH {
                        drop(file);
                        parsed_ok += parse_batch(&jsonl, &result, a, &mut violations, &mut per_key);
                        file = std::io::BufWriter::new(std::fs::File::create(&jsonl).expect("jsonl"));
                        in_batch = 0;
                    }
                }
            }
        }
    }
    drop(file);
    parsed_ok += parse_batch(&jsonl, &result, a, &mut violations, &mut per_key);
    json!({
        "property": "C14", "tier": a.tier,
        "total_configs": cs.len() * osets.len(), "configs_done": evaluations, "configs_skipped_budget": skipped,
        "evaluations": evaluations, "distinct_nontrivial": nontrivial.len(),
        "rule": "streams of the C12 grammar (quick: every 2nd single-scenario and every 24th two-scenario case) x {with path, path-less} x {plain, quotes/markup/non-ASCII names, same-named scenarios, rich (doc strings, tables, logs, World), same-named features of which one is path-less, same-named features none of which has a path, same-named features at <project dir>/p and <elsewhere>/<project dir>/p, unnamed rules, positions shifted to two/three-digit lines with format/regex metacharacters in names} x reporter options (libtest show_output / report_time, verbosity 0/1) through Summarize<Normalize<Basic>> and Normalize<Libtest|Json|JUnit> into memory sinks; the terminal [Summary] block is parsed and compared with a recount of the stream; outputs parsed back by tools/parse_reports.py (json, xml.etree, line parser); non-trivial = distinct (stream, options) with a non-passed fact",
        "exhaustive": skipped == 0,
        "details": {"records_parsed_back": parsed_ok},
        "violations": violations, "samples": samples,
    })
}

pub fn replay(j: &serde_json::Value) -> i32 {
    let thorough = j["tier"].as_str() == Some("thorough");
    let cs = cases(thorough);
    let osets = opt_sets(thorough);
    let ci = j["case_index"].as_u64().unwrap() as usize;
    let oi = j["opts_index"].as_u64().unwrap() as usize;
    let Some((cfg, stream)) = h_sum::build(&cs[ci]) else { return 2 };
    let o = &osets[oi];
    let src = decorated_sources(&cfg, o);
    println!("{:?}\n{o:?}", cs[ci]);
    for e in &stream {
        println!("  {}", e.short());
    }
    match render(&src, &stream, o) {
        Err(m) => {
            println!("reporter panicked: {m}");
            1
        }
        Ok(out) => {
            let rec = json!({
                "case_index": ci, "opts_index": oi,
                "opts": {"path": o.path, "deco": format!("{:?}", o.deco), "show_output": o.libtest_show_output,
                         "report_time": o.libtest_report_time, "verbosity": o.verbosity},
                "announced": announced(&stream),
                "facts": facts(&src, &stream), "attempts": attempts(&src, &stream),
                "basic": out.basic, "libtest": out.libtest, "json": out.json, "junit": out.junit,
            });
            println!("--- terminal\n{}--- libtest\n{}--- json\n{}\n--- junit\n{}", out.basic, out.libtest, out.json, out.junit);
            let tmp = std::env::temp_dir().join(format!("verif-c14-replay-{}.jsonl", std::process::id()));
            std::fs::write(&tmp, format!("{rec}\n")).unwrap();
            let res = tmp.with_extension("json");
            let ok = std::process::Command::new("python3")
                .arg("tools/parse_reports.py")
                .arg(&tmp)
                .arg(&res)
                .status()
                .map(|s| s.success())
                .unwrap_or(false);
            let mut rc = 2;
            if ok {
                let j: serde_json::Value =
                    serde_json::from_str(&std::fs::read_to_string(&res).unwrap()).unwrap();
                let vs = j["violations"].as_array().cloned().unwrap_or_default();
                for v in &vs {
                    println!("violation C14 [{}] finding={}: {}", v["key"], v["finding"], v["message"]);
                }
                rc = i32::from(!vs.is_empty());
            }
            let _ = std::fs::remove_file(&tmp);
            let _ = std::fs::remove_file(&res);
            rc
        }
    }
}
