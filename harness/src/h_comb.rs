//! C13: writer combinators (`FailOnSkipped`, `Repeat`, `Tee`, `Or`, `discard`)
//! against reference map/filter/route functions on every short event sequence.

use std::cell::RefCell;

use cucumber::{
    cli,
    writer::{self, discard, FailOnSkipped, Or, Repeat, Tee},
    Writer, WriterExt as _,
};
use futures::FutureExt as _;
use serde_json::json;

use crate::{
    canon::{self, Ev, HookEv, HookKind, ScEv, StepEv},
    hist::ShardArgs,
    hs::TW,
    rec::{erase, sc, Seen, Sources},
    spec::{FeatSpec, RawItem, RuleSpec, ScenSpec, StepKind},
};

thread_local! {
    static SINKS: RefCell<Vec<Vec<Seen>>> = const { RefCell::new(Vec::new()) };
    /// Events that reached a sink with a timestamp other than the one they were fed with.
    static RESTAMPED: std::cell::Cell<usize> = const { std::cell::Cell::new(0) };
    static COUNTERS: RefCell<Vec<[usize; 6]>> = const { RefCell::new(Vec::new()) };
}

/// Shared recorder: everything it sees goes to the thread-local sink `id`.
#[derive(Clone, Copy, Debug)]
pub struct SRec(pub usize);

impl Writer<TW> for SRec {
    type Cli = cli::Empty;
    async fn handle_event(&mut self, ev: RawItem, _: &cli::Empty) {
        if let Ok(e) = &ev {
            if e.at != std::time::UNIX_EPOCH + std::time::Duration::from_secs(1_000) {
                RESTAMPED.with(|r| r.set(r.get() + 1));
            }
        }
        SINKS.with(|s| s.borrow_mut()[self.0].push(Seen::Event(erase(&canon::canon(&ev)))));
    }
}
impl writer::Arbitrary<TW, String> for SRec {
    async fn write(&mut self, val: String) {
        SINKS.with(|s| s.borrow_mut()[self.0].push(Seen::Write(val)));
    }
}
impl writer::Stats<TW> for SRec {
    fn passed_steps(&self) -> usize {
        COUNTERS.with(|c| c.borrow()[self.0][0])
    }
    fn skipped_steps(&self) -> usize {
        COUNTERS.with(|c| c.borrow()[self.0][1])
    }
    fn failed_steps(&self) -> usize {
        COUNTERS.with(|c| c.borrow()[self.0][2])
    }
    fn retried_steps(&self) -> usize {
        COUNTERS.with(|c| c.borrow()[self.0][3])
    }
    fn parsing_errors(&self) -> usize {
        COUNTERS.with(|c| c.borrow()[self.0][4])
    }
    fn hook_errors(&self) -> usize {
        COUNTERS.with(|c| c.borrow()[self.0][5])
    }
}
impl writer::NonTransforming for SRec {}
impl writer::Normalized for SRec {}

// ----------------------------------------------------------- reference model

#[derive(Clone, Debug)]
pub enum WExpr {
    Rec(usize),
    Fos(Box<WExpr>),
    /// custom predicate: fail iff the scenario is inside a rule
    FosInRule(Box<WExpr>),
    RepSkipped(Box<WExpr>),
    RepFailed(Box<WExpr>),
    /// custom filter: parser errors only
    RepErrs(Box<WExpr>),
    /// `Repeat` with a custom filter matching every item, run-Finished included
    RepAll(Box<WExpr>),
    Tee(Box<WExpr>, Box<WExpr>),
    /// predicate: scenario events go left, everything else right
    Or(Box<WExpr>, Box<WExpr>),
    DiscardArb(Box<WExpr>),
    DiscardStats(Box<WExpr>),
}

#[derive(Clone, Debug)]
pub enum In {
    Ev(Ev),
    Write(String),
}

/// Reference interpreter state: the pending buffers of the `Repeat`s, in
/// pre-order of the expression tree.
pub struct RefState {
    bufs: Vec<Vec<Ev>>,
    pub sinks: Vec<Vec<Seen>>,
}

fn is_skipped(e: &Ev) -> bool {
    matches!(e, Ev::Sc { ev: ScEv::Step(_, _, _, StepEv::Skipped), .. })
}
fn is_failed(e: &Ev) -> bool {
    matches!(
        e,
        Ev::ParseErr(_)
            | Ev::Sc { ev: ScEv::Step(_, _, _, StepEv::Failed(..)) | ScEv::Hook(_, HookEv::Failed(..)), .. }
    )
}

fn allow_skipped(e: &Ev) -> bool {
    // by construction of the alphabet: names carry the tag placement
    match e {
        Ev::Sc { f, r, s, .. } => {
            f == "F2" || r.as_deref() == Some("F1.R2") || s == "F1.S2"
        }
        _ => false,
    }
}

impl RefState {
    pub fn new(nsinks: usize) -> Self {
        RefState { bufs: Vec::new(), sinks: vec![Vec::new(); nsinks] }
    }

    pub fn feed(&mut self, x: &WExpr, input: &In) {
        let mut idx = 0;
        self.go(x, input, &mut idx);
    }

    fn go(&mut self, x: &WExpr, input: &In, idx: &mut usize) {
        match x {
            WExpr::Rec(id) => self.sinks[*id].push(match input {
                In::Ev(e) => Seen::Event(e.clone()),
                In::Write(w) => Seen::Write(w.clone()),
            }),
            WExpr::Fos(inner) | WExpr::FosInRule(inner) => {
                let mapped = match input {
                    In::Ev(e) if is_skipped(e) => {
                        let fail = match x {
                            WExpr::Fos(_) => !allow_skipped(e),
                            _ => matches!(e, Ev::Sc { r: Some(_), .. }),
                        };
                        if fail {
                            let mut e2 = e.clone();
                            if let Ev::Sc { ev: ScEv::Step(_, _, _, st), .. } = &mut e2 {
                                *st = StepEv::Failed("NotFound".into(), None);
                            }
                            In::Ev(e2)
                        } else {
                            input.clone()
                        }
                    }
                    _ => input.clone(),
                };
                self.go(inner, &mapped, idx);
            }
            WExpr::RepSkipped(inner) | WExpr::RepFailed(inner) | WExpr::RepErrs(inner) | WExpr::RepAll(inner) => {
                let my = *idx;
                *idx += 1;
                if self.bufs.len() <= my {
                    self.bufs.resize(my + 1, Vec::new());
                }
                if let In::Ev(e) = input {
                    let keep = match x {
                        WExpr::RepSkipped(_) => is_skipped(e),
                        WExpr::RepFailed(_) => is_failed(e),
                        WExpr::RepAll(_) => true,
                        _ => matches!(e, Ev::ParseErr(_)),
                    };
                    if keep {
                        self.bufs[my].push(e.clone());
                    }
                }
                let start = *idx;
                self.go(inner, input, idx);
                if matches!(input, In::Ev(Ev::Finished)) {
                    let replay = std::mem::take(&mut self.bufs[my]);
                    for e in replay {
                        let mut i2 = start;
                        self.go(inner, &In::Ev(e), &mut i2);
                    }
                }
            }
            WExpr::Tee(l, r) => {
                self.go(l, input, idx);
                self.go(r, input, idx);
            }
            WExpr::Or(l, r) => match input {
                In::Ev(e) => {
                    // both subtrees own buffer slots: advance idx over the one not taken
                    if matches!(e, Ev::Sc { .. }) {
                        self.go(l, input, idx);
                        *idx += count_repeats(r);
                    } else {
                        *idx += count_repeats(l);
                        self.go(r, input, idx);
                    }
                }
                In::Write(_) => unreachable!("Or has no Arbitrary impl"),
            },
            WExpr::DiscardArb(inner) => {
                if matches!(input, In::Ev(_)) {
                    self.go(inner, input, idx);
                } else {
                    *idx += count_repeats(inner);
                }
            }
            WExpr::DiscardStats(inner) => self.go(inner, input, idx),
        }
    }
}

fn count_repeats(x: &WExpr) -> usize {
    match x {
        WExpr::Rec(_) => 0,
        WExpr::Fos(i) | WExpr::FosInRule(i) | WExpr::DiscardArb(i) | WExpr::DiscardStats(i) => count_repeats(i),
        WExpr::RepSkipped(i) | WExpr::RepFailed(i) | WExpr::RepErrs(i) | WExpr::RepAll(i) => 1 + count_repeats(i),
        WExpr::Tee(l, r) | WExpr::Or(l, r) => count_repeats(l) + count_repeats(r),
    }
}

pub fn ref_stats(x: &WExpr, c: &[[usize; 6]]) -> [usize; 6] {
    match x {
        WExpr::Rec(id) => c[*id],
        WExpr::Fos(i)
        | WExpr::FosInRule(i)
        | WExpr::RepSkipped(i)
        | WExpr::RepFailed(i)
        | WExpr::RepErrs(i)
        | WExpr::RepAll(i)
        | WExpr::DiscardArb(i) => ref_stats(i, c),
        WExpr::DiscardStats(_) => [0; 6],
        WExpr::Tee(l, r) => {
            let (a, b) = (ref_stats(l, c), ref_stats(r, c));
            std::array::from_fn(|i| a[i].max(b[i]))
        }
        WExpr::Or(l, r) => {
            let (a, b) = (ref_stats(l, c), ref_stats(r, c));
            std::array::from_fn(|i| a[i] + b[i])
        }
    }
}

// ------------------------------------------------------------- real nestings

pub trait Dyn {
    fn ev(&mut self, item: RawItem);
    /// `false` if the nesting has no `Arbitrary` implementation.
    fn wr(&mut self, s: String) -> bool;
    fn stats(&self) -> [usize; 6];
    /// Replaces the writer by a clone of itself (the original is dropped); a no-op for
    /// nestings that are not driven that way.
    fn reclone(&mut self) {}
}

struct WithArb<W>(W);
/// Like `WithArb`, for nestings that are cloned after every input: the run continues on
/// the clone (a writer handed from one owner to the next), which must carry all pending state.
struct WithArbC<W>(W);

impl<W> Dyn for WithArbC<W>
where
    W: writer::Stats<TW> + writer::Arbitrary<TW, String> + Clone,
    W::Cli: Default,
{
    fn ev(&mut self, item: RawItem) {
        self.0.handle_event(item, &W::Cli::default()).now_or_never().expect("suspended");
    }
    fn wr(&mut self, s: String) -> bool {
        self.0.write(s).now_or_never().expect("suspended");
        true
    }
    fn stats(&self) -> [usize; 6] {
        stats_of(&self.0)
    }
    fn reclone(&mut self) {
        let copy = self.0.clone();
        self.0 = copy;
    }
}
struct NoArb<W>(W);

fn stats_of<W: writer::Stats<TW>>(w: &W) -> [usize; 6] {
    [
        w.passed_steps(),
        w.skipped_steps(),
        w.failed_steps(),
        w.retried_steps(),
        w.parsing_errors(),
        w.hook_errors(),
    ]
}

impl<W> Dyn for WithArb<W>
where
    W: writer::Stats<TW> + writer::Arbitrary<TW, String>,
    W::Cli: Default,
{
    fn ev(&mut self, item: RawItem) {
        self.0.handle_event(item, &W::Cli::default()).now_or_never().expect("suspended");
    }
    fn wr(&mut self, s: String) -> bool {
        self.0.write(s).now_or_never().expect("suspended");
        true
    }
    fn stats(&self) -> [usize; 6] {
        stats_of(&self.0)
    }
}

impl<W> Dyn for NoArb<W>
where
    W: writer::Stats<TW>,
    W::Cli: Default,
{
    fn ev(&mut self, item: RawItem) {
        self.0.handle_event(item, &W::Cli::default()).now_or_never().expect("suspended");
    }
    fn wr(&mut self, _: String) -> bool {
        false
    }
    fn stats(&self) -> [usize; 6] {
        stats_of(&self.0)
    }
}

type Cmp2 = cli::Compose<cli::Empty, cli::Empty>;

fn in_rule(_: &gherkin::Feature, r: Option<&gherkin::Rule>, _: &gherkin::Scenario) -> bool {
    r.is_some()
}
fn errs_only(e: &RawItem) -> bool {
    e.is_err()
}
fn every_item(_: &RawItem) -> bool {
    true
}
fn or_pred<C>(e: &RawItem, _: &C) -> bool {
    matches!(
        e.as_ref().map(|e| &e.value),
        Ok(cucumber::event::Cucumber::Feature(
            _,
            cucumber::event::Feature::Scenario(..)
                | cucumber::event::Feature::Rule(_, cucumber::event::Rule::Scenario(..))
        ))
    )
}

/// (name, number of recorders, reference expression, real nesting)
pub fn nestings() -> Vec<(&'static str, usize, WExpr, Box<dyn Fn() -> Box<dyn Dyn>>)> {
    use WExpr as X;
    let r = |i| Box::new(X::Rec(i));
    let mut v: Vec<(&'static str, usize, WExpr, Box<dyn Fn() -> Box<dyn Dyn>>)> = Vec::new();
    v.push(("FailOnSkipped", 1, X::Fos(r(0)), Box::new(|| Box::new(WithArb(SRec(0).fail_on_skipped())))));
    v.push((
        "FailOnSkipped(custom)",
        1,
        X::FosInRule(r(0)),
        Box::new(|| Box::new(WithArb(SRec(0).fail_on_skipped_with(in_rule)))),
    ));
    v.push(("Repeat::skipped", 1, X::RepSkipped(r(0)), Box::new(|| Box::new(WithArb(SRec(0).repeat_skipped::<TW>())))));
    v.push(("Repeat::failed", 1, X::RepFailed(r(0)), Box::new(|| Box::new(WithArb(SRec(0).repeat_failed::<TW>())))));
    v.push((
        "Repeat::new(custom)",
        1,
        X::RepErrs(r(0)),
        Box::new(|| Box::new(WithArb(SRec(0).repeat_if::<TW, _>(errs_only as fn(&RawItem) -> bool)))),
    ));
    v.push((
        "Repeat::new(everything)",
        1,
        X::RepAll(r(0)),
        Box::new(|| Box::new(WithArb(SRec(0).repeat_if::<TW, _>(every_item as fn(&RawItem) -> bool)))),
    ));
    // the same wrappers with the run continuing on a clone after every input
    v.push((
        "Repeat::failed (cloned after every input)",
        1,
        X::RepFailed(r(0)),
        Box::new(|| Box::new(WithArbC(SRec(0).repeat_failed::<TW>()))),
    ));
    v.push((
        "Repeat::new(everything) (cloned after every input)",
        1,
        X::RepAll(r(0)),
        Box::new(|| Box::new(WithArbC(SRec(0).repeat_if::<TW, _>(every_item as fn(&RawItem) -> bool)))),
    ));
    v.push((
        "FailOnSkipped<Repeat::skipped> (cloned after every input)",
        1,
        X::Fos(Box::new(X::RepSkipped(r(0)))),
        Box::new(|| Box::new(WithArbC(SRec(0).repeat_skipped::<TW>().fail_on_skipped()))),
    ));
    v.push(("Tee", 2, X::Tee(r(0), r(1)), Box::new(|| Box::new(WithArb(SRec(0).tee::<TW, _>(SRec(1)))))));
    v.push((
        "Or",
        2,
        X::Or(r(0), r(1)),
        Box::new(|| Box::new(NoArb(Or::new(SRec(0), SRec(1), or_pred::<Cmp2> as fn(&RawItem, &Cmp2) -> bool)))),
    ));
    v.push(("discard::Arbitrary", 1, X::DiscardArb(r(0)), Box::new(|| Box::new(WithArb(SRec(0).discard_arbitrary_writes())))));
    v.push(("discard::Stats", 1, X::DiscardStats(r(0)), Box::new(|| Box::new(WithArb(SRec(0).discard_stats_writes())))));
    // depth 2-3
    v.push((
        "FailOnSkipped<Repeat::failed>",
        1,
        X::Fos(Box::new(X::RepFailed(r(0)))),
        Box::new(|| Box::new(WithArb(SRec(0).repeat_failed::<TW>().fail_on_skipped()))),
    ));
    v.push((
        "Repeat::skipped<Tee>",
        2,
        X::RepSkipped(Box::new(X::Tee(r(0), r(1)))),
        Box::new(|| Box::new(WithArb(SRec(0).tee::<TW, _>(SRec(1)).repeat_skipped::<TW>()))),
    ));
    v.push((
        "Tee<FailOnSkipped, Repeat::failed>",
        2,
        X::Tee(Box::new(X::Fos(r(0))), Box::new(X::RepFailed(r(1)))),
        Box::new(|| {
            Box::new(WithArb(Tee::new(SRec(0).fail_on_skipped(), SRec(1).repeat_failed::<TW>())))
        }),
    ));
    v.push((
        "Or<FailOnSkipped, Repeat::custom>",
        2,
        X::Or(Box::new(X::Fos(r(0))), Box::new(X::RepErrs(r(1)))),
        Box::new(|| {
            Box::new(NoArb(Or::new(
                SRec(0).fail_on_skipped(),
                SRec(1).repeat_if::<TW, _>(errs_only as fn(&RawItem) -> bool),
                or_pred::<Cmp2> as fn(&RawItem, &Cmp2) -> bool,
            )))
        }),
    ));
    v.push((
        "FailOnSkipped<Tee<Repeat::skipped, Rec>>",
        2,
        X::Fos(Box::new(X::Tee(Box::new(X::RepSkipped(r(0))), r(1)))),
        Box::new(|| {
            Box::new(WithArb(Tee::new(SRec(0).repeat_skipped::<TW>(), SRec(1)).fail_on_skipped()))
        }),
    ));
    v.push((
        "discard::Arbitrary<Tee<Repeat::failed, discard::Stats>>",
        2,
        X::DiscardArb(Box::new(X::Tee(Box::new(X::RepFailed(r(0))), Box::new(X::DiscardStats(r(1)))))),
        Box::new(|| {
            Box::new(WithArb(
                Tee::new(SRec(0).repeat_failed::<TW>(), SRec(1).discard_stats_writes())
                    .discard_arbitrary_writes(),
            ))
        }),
    ));
    let _ = (FailOnSkipped::<SRec>::new, Repeat::<TW, SRec>::skipped, discard::Arbitrary::<SRec>::wrap);
    v
}

// ------------------------------------------------------------------ alphabet

pub fn alphabet_sources() -> Sources {
    let s = |tags: &[&str]| ScenSpec {
        tags: tags.iter().map(|t| (*t).to_owned()).collect(),
        steps: vec![StepKind::Matched],
    };
    let f1 = FeatSpec {
        bg: vec![StepKind::Matched],
        // look-alike spellings are ordinary tags: only `@allow.skipped` itself exempts
        tags: vec!["Allow.Skipped".into()],
        scenarios: vec![s(&["allow_skipped", "allow.skipped2"]), s(&["allow.skipped"])],
        rules: vec![
            RuleSpec { tags: vec!["allow".into(), "skipped".into()], bg: vec![], scenarios: vec![s(&["allowXskipped"])] },
            RuleSpec { tags: vec!["allow.skipped".into()], bg: vec![], scenarios: vec![s(&[])] },
        ],
        ..Default::default()
    };
    let f2 = FeatSpec {
        tags: vec!["allow.skipped".into()],
        bg: vec![StepKind::Matched],
        scenarios: vec![s(&[])],
        rules: vec![RuleSpec { tags: vec![], bg: vec![], scenarios: vec![s(&[])] }],
    };
    Sources::from_features(vec![f1.parse(0), f2.parse(1)])
}

/// `(full alphabet, core alphabet)`.
pub fn alphabet() -> (Vec<In>, Vec<In>) {
    let mut full: Vec<In> = Vec::new();
    let mut core: Vec<In> = Vec::new();
    let glob = [
        Ev::Started,
        Ev::Finished,
        Ev::ParsingFinished { features: 2, rules: 2, scenarios: 5, steps: 5, parser_errors: 1 },
        Ev::ParseErr("e1".into()),
        Ev::FeatStarted("F1".into()),
        Ev::FeatFinished("F1".into()),
        Ev::RuleStarted("F1".into(), "F1.R1".into()),
        Ev::RuleFinished("F1".into(), "F1.R1".into()),
    ];
    for (i, e) in glob.iter().enumerate() {
        full.push(In::Ev(e.clone()));
        if i < 4 {
            core.push(In::Ev(e.clone()));
        }
    }
    let ctxs: [(&str, Option<&str>, &str, &str); 6] = [
        ("F1", None, "F1.S1", "bg F1 1"),
        ("F1", None, "F1.S2", "bg F1 1"),
        ("F1", Some("F1.R1"), "F1.R1.S1", "bg F1 1"),
        ("F1", Some("F1.R2"), "F1.R2.S1", "bg F1 1"),
        ("F2", None, "F2.S1", "bg F2 1"),
        // feature tagged, scenario inside an untagged rule
        ("F2", Some("F2.R1"), "F2.R1.S1", "bg F2 1"),
    ];
    for (ci, (f, r, s, bg)) in ctxs.iter().enumerate() {
        let step = format!("step {s} 1");
        let mk = |retries, ev| sc(f, *r, s, retries, ev);
        let evs = vec![
            (true, mk(None, ScEv::Step(false, step.clone(), 0, StepEv::Skipped))),
            (false, mk(Some((0, 1)), ScEv::Step(false, step.clone(), 0, StepEv::Skipped))),
            (true, mk(None, ScEv::Step(true, (*bg).to_owned(), 0, StepEv::Skipped))),
            // a skipped background step of an attempt that carries a retry counter
            (ci == 1, mk(Some((0, 2)), ScEv::Step(true, (*bg).to_owned(), 0, StepEv::Skipped))),
            (ci == 0, mk(None, ScEv::Step(false, step.clone(), 0, StepEv::Failed("boom".into(), None)))),
            (false, mk(Some((1, 0)), ScEv::Step(false, step.clone(), 0, StepEv::Failed("boom".into(), None)))),
            (false, mk(None, ScEv::Step(true, (*bg).to_owned(), 0, StepEv::Failed("boom".into(), None)))),
            (ci == 2, mk(None, ScEv::Hook(HookKind::Before, HookEv::Failed("hk".into(), None)))),
            (ci == 0, mk(None, ScEv::Step(false, step.clone(), 0, StepEv::Passed))),
            (false, mk(None, ScEv::Started)),
        ];
        for (in_core, e) in evs {
            full.push(In::Ev(e.clone()));
            if in_core {
                core.push(In::Ev(e));
            }
        }
    }
    full.push(In::Write("text".into()));
    core.push(In::Write("text".into()));
    (full, core)
}

fn sequences(alpha: &[In], len: usize) -> impl Iterator<Item = Vec<usize>> + '_ {
    let n = alpha.len();
    let total = n.pow(len as u32);
    (0..total).map(move |mut k| {
        let mut v = Vec::with_capacity(len);
        for _ in 0..len {
            v.push(k % n);
            k /= n;
        }
        v
    })
}

fn render_in(i: &In) -> String {
    match i {
        In::Ev(e) => e.short(),
        In::Write(w) => format!("write({w})"),
    }
}

pub fn run_one(
    src: &Sources,
    nest: &(&'static str, usize, WExpr, Box<dyn Fn() -> Box<dyn Dyn>>),
    seq: &[In],
) -> Option<String> {
    let (_, nrec, expr, mk) = nest;
    SINKS.with(|s| *s.borrow_mut() = vec![Vec::new(); *nrec]);
    RESTAMPED.with(|r| r.set(0));
    let mut real = mk();
    let mut rf = RefState::new(*nrec);
    for (k, x) in seq.iter().enumerate() {
        match x {
            In::Ev(e) => {
                real.ev(src.realize(e));
                rf.feed(expr, x);
            }
            In::Write(w) => {
                if real.wr(w.clone()) {
                    rf.feed(expr, x);
                }
            }
        }
        real.reclone();
        if RESTAMPED.with(std::cell::Cell::get) > 0 {
            return Some(format!(
                "after input #{k} ({}) an event reached an inner writer with a new timestamp: combinators forward (or replay) the event they were given, metadata included",
                render_in(x)
            ));
        }
        let got = SINKS.with(|s| s.borrow().clone());
        if got != rf.sinks {
            return Some(format!(
                "after input #{k} ({}) the inner writers saw {:?}, reference says {:?}",
                render_in(x),
                got,
                rf.sinks
            ));
        }
    }
    None
}

pub fn stats_check(
    nest: &(&'static str, usize, WExpr, Box<dyn Fn() -> Box<dyn Dyn>>),
) -> (usize, Option<String>) {
    let (_, nrec, expr, mk) = nest;
    let mut n = 0;
    // counter vectors: every recorder gets (a, a+1, 2a, ..) patterns from {0,1,2}
    let vals = [0usize, 1, 2];
    let combos: Vec<Vec<usize>> = if *nrec == 1 {
        vals.iter().map(|a| vec![*a]).collect()
    } else {
        vals.iter().flat_map(|a| vals.iter().map(move |b| vec![*a, *b])).collect()
    };
    for combo in combos {
        for slot in 0..6 {
            let c: Vec<[usize; 6]> = combo
                .iter()
                .map(|v| {
                    let mut x = [0usize; 6];
                    x[slot] = *v;
                    x[(slot + 1) % 6] = 2 - *v;
                    x
                })
                .collect();
            COUNTERS.with(|cc| *cc.borrow_mut() = c.clone());
            SINKS.with(|s| *s.borrow_mut() = vec![Vec::new(); *nrec]);
            let real = mk();
            n += 1;
            let (got, want) = (real.stats(), ref_stats(expr, &c));
            if got != want {
                return (n, Some(format!("statistics {got:?} with inner counters {c:?}, expected {want:?}")));
            }
        }
    }
    (n, None)
}

pub fn plan(thorough: bool) -> Vec<(bool, usize)> {
    // (full alphabet?, length)
    if thorough {
        vec![(true, 1), (true, 2), (true, 3), (true, 4)]
    } else {
        vec![(true, 1), (true, 2), (false, 3)]
    }
}

pub fn run(a: &ShardArgs) -> serde_json::Value {
    let src = alphabet_sources();
    let (full, core) = alphabet();
    let nests = nestings();
    COUNTERS.with(|c| *c.borrow_mut() = vec![[0; 6]; 2]);
    let mut evaluations = 0usize;
    let mut nontrivial = 0usize;
    let mut violations = Vec::new();
    let mut samples = Vec::new();
    let mut skipped = 0usize;
    let mut work = 0usize;
    for (ni, nest) in nests.iter().enumerate() {
        // statistics algebra
        if a.mine(work) {
            let (n, bad) = stats_check(nest);
            evaluations += n;
            if let Some(msg) = bad {
                violations.push(json!({
                    "engine": "hist", "property": "C13", "tier": a.tier, "key": "stats",
                    "nest_index": ni, "nest": nest.0, "message": format!("{}: {msg}", nest.0), "sequence": [],
                }));
            }
            COUNTERS.with(|c| *c.borrow_mut() = vec![[0; 6]; 2]);
        }
        work += 1;
        for (use_full, len) in plan(a.thorough) {
            let alpha = if use_full { &full } else { &core };
            for (k, idxs) in sequences(alpha, len).enumerate() {
                if k % 4096 == 0 {
                    work += 1;
                    if a.out_of_time() {
                        skipped += 1;
                    }
                }
                if !a.mine(work) || skipped > 0 {
                    continue;
                }
                let seq: Vec<In> = idxs.iter().map(|i| alpha[*i].clone()).collect();
                evaluations += 1;
                // non-trivial: the wrapper has something to do
                if seq.iter().any(|x| match x {
                    In::Ev(e) => is_skipped(e) || is_failed(e) || *e == Ev::Finished,
                    In::Write(_) => true,
                }) {
                    nontrivial += 1;
                }
                if let Some(msg) = run_one(&src, nest, &seq) {
                    if violations.len() < 40 {
                        violations.push(json!({
                            "engine": "hist", "property": "C13", "tier": a.tier, "key": "transparency",
                            "nest_index": ni, "nest": nest.0,
                            "full_alphabet": use_full, "sequence": idxs,
                            "message": format!("{}: {msg}", nest.0),
                            "inputs": seq.iter().map(render_in).collect::<Vec<_>>(),
                        }));
                    }
                }
                if samples.len() < 3 && len == 3 && k % 977 == 13 {
                    samples.push(json!({"nesting": nest.0, "inputs": seq.iter().map(render_in).collect::<Vec<_>>()}));
                }
            }
        }
    }
    json!({
        "property": "C13", "tier": a.tier,
        "total_configs": nests.len(), "configs_done": nests.len(), "configs_skipped_budget": skipped,
        "evaluations": evaluations, "distinct_nontrivial": nontrivial,
        "rule": format!("all sequences over the {}-symbol alphabet up to the lengths {:?} (true = full alphabet, false = {}-symbol core) through {} nestings, compared after every input; non-trivial = contains a skipped/failed event, run-Finished or an arbitrary write", full.len(), plan(a.thorough), core.len(), nests.len()),
        "exhaustive": skipped == 0,
        "violations": violations, "samples": samples,
    })
}

pub fn replay(j: &serde_json::Value) -> i32 {
    let src = alphabet_sources();
    let (full, core) = alphabet();
    let nests = nestings();
    COUNTERS.with(|c| *c.borrow_mut() = vec![[0; 6]; 2]);
    let ni = j["nest_index"].as_u64().unwrap() as usize;
    if j["key"] == "stats" {
        let (_, bad) = stats_check(&nests[ni]);
        println!("{bad:?}");
        return i32::from(bad.is_some());
    }
    let alpha = if j["full_alphabet"].as_bool().unwrap_or(true) { &full } else { &core };
    let seq: Vec<In> = j["sequence"]
        .as_array()
        .unwrap()
        .iter()
        .map(|x| alpha[x.as_u64().unwrap() as usize].clone())
        .collect();
    for x in &seq {
        println!("  {}", render_in(x));
    }
    match run_one(&src, &nests[ni], &seq) {
        Some(m) => {
            println!("violation C13: {}: {m}", nests[ni].0);
            1
        }
        None => {
            println!("holds");
            0
        }
    }
}
