//! C15: `Cucumber::filter_run` hands exactly the matching scenarios to the runner.

use std::cell::RefCell;

use cucumber::{cli, parser, runner, Cucumber, Runner};
use futures::{stream::LocalBoxStream, FutureExt as _, StreamExt as _};
use gherkin::tagexpr::TagOperation;
use regex::Regex;
use serde_json::json;

use crate::{
    hist::ShardArgs,
    hs::TW,
    rec::Rec,
    refm::TagExpr,
    spec::{FeatSpec, RawItem, RuleSpec, ScenSpec, StepKind},
};

thread_local! {
    static RECEIVED: RefCell<Vec<Result<gherkin::Feature, String>>> = const { RefCell::new(Vec::new()) };
}

pub struct StubParser(pub Vec<gherkin::Feature>);

impl cucumber::Parser<()> for StubParser {
    type Cli = cli::Empty;
    type Output = LocalBoxStream<'static, parser::Result<gherkin::Feature>>;
    fn parse(self, _: (), _: cli::Empty) -> Self::Output {
        futures::stream::iter(self.0.into_iter().map(Ok)).boxed_local()
    }
}

pub struct RecordingRunner;

impl Runner<TW> for RecordingRunner {
    type Cli = runner::basic::Cli;
    type EventStream = LocalBoxStream<'static, RawItem>;
    fn run<S>(self, features: S, _: Self::Cli) -> Self::EventStream
    where
        S: futures::Stream<Item = parser::Result<gherkin::Feature>> + 'static,
    {
        features
            .filter_map(|f| async move {
                RECEIVED.with(|r| r.borrow_mut().push(f.map_err(|e| e.to_string())));
                None
            })
            .boxed_local()
    }
}

const NAMES: [&str; 4] = ["alpha", "beta", "alpha beta", "gamma"];

fn tagset(k: usize) -> Vec<String> {
    match k {
        0 => vec![],
        1 => vec!["a".into()],
        // (a tag with an upper-case letter: tags are case-sensitive on every path)
        2 => vec!["B".into()],
        3 => vec!["a".into(), "B".into()],
        // one tag that reads like the two others written together, and one that reads like
        // `a` with an argument: neither is the tag `a`
        _ => vec!["aB".into(), "a(1)".into()],
    }
}

/// Feature universe: tags on feature (3) x rule (3) x three scenarios (4 each).
pub fn features() -> Vec<gherkin::Feature> {
    features_t(false)
}

fn outline_rows(outline_tags: usize, ex1: usize, ex2: usize) -> Vec<gherkin::Scenario> {
    use cucumber::feature::Ext as _;
    let line = |ind: &str, k: usize| -> String {
        let t = tagset(k);
        if t.is_empty() {
            String::new()
        } else {
            format!("{ind}{}\n", t.iter().map(|x| format!("@{x}")).collect::<Vec<_>>().join(" "))
        }
    };
    let text = format!(
        "Feature: o\n{}  Scenario Outline: gamma <v>\n    Given step <v>\n{}    Examples:\n      | v |\n      | 1 |\n{}    Examples:\n      | v |\n      | 2 |\n",
        line("  ", outline_tags),
        line("    ", ex1),
        line("    ", ex2),
    );
    let f = gherkin::Feature::parse(&text, gherkin::GherkinEnv::default()).expect("outline feature");
    let f = f.expand_examples().expect("expansion");
    assert_eq!(f.scenarios.len(), 2);
    f.scenarios
}

/// Thorough: all four tag sets on feature and rule as well.
pub fn features_t(thorough: bool) -> Vec<gherkin::Feature> {
    let mut out = Vec::new();
    let top = if thorough { 4 } else { 3 };
    for ft in 0..top {
        for rt in 0..top {
            for s1 in 0..5 {
                for s2 in 0..5 {
                    for s3 in 0..5 {
                        let sc = |k: usize| ScenSpec { tags: tagset(k), steps: vec![StepKind::Matched] };
                        let spec = FeatSpec {
                            tags: tagset(ft),
                            bg: vec![StepKind::Matched],
                            scenarios: vec![sc(s1), sc(s2)],
                            rules: vec![
                                RuleSpec { tags: tagset(rt), bg: vec![], scenarios: vec![sc(s3), sc((s1 + s3) % 5)] },
                                // later rules with a background of their own: what is dropped from an
                                // earlier rule must not shift the decisions taken for these
                                RuleSpec {
                                    tags: tagset((rt + 1) % 3),
                                    bg: vec![StepKind::Matched],
                                    scenarios: vec![sc(s2), sc((s2 + s3) % 5), sc(s1)],
                                },
                                RuleSpec { tags: vec![], bg: vec![], scenarios: vec![sc((s1 + s2) % 5)] },
                                RuleSpec::default(),
                            ],
                        };
                        let mut f = spec.parse(out.len());
                        // names from the pool (the generator's names are unique ids)
                        f.scenarios[0].name = NAMES[0].into();
                        f.scenarios[1].name = NAMES[1].into();
                        f.rules[0].scenarios[0].name = NAMES[2].into();
                        f.rules[0].scenarios[1].name = NAMES[(s1 + s2) % 4].into();
                        f.rules[1].scenarios[0].name = NAMES[(s2 + s3) % 4].into();
                        f.rules[1].scenarios[1].name = NAMES[3].into();
                        f.rules[1].scenarios[2].name = NAMES[(s1 + s3) % 4].into();
                        f.rules[2].scenarios[0].name = NAMES[(s1 + 1) % 4].into();
                        // rows of an outline with two differently tagged `Examples:` blocks, as
                        // `parser::Basic` hands them over (each row carries its own block's tags
                        // and still knows all blocks of its outline)
                        if s1 == 0 && s2 == 1 {
                            // more tags than any fixed-size scratch space would hold: the deciding
                            // tag comes last in the union
                            f.tags = (1..=5).map(|k| format!("t{k}")).chain(f.tags.clone()).collect();
                            f.rules[0].tags = (6..=9).map(|k| format!("t{k}")).chain(f.rules[0].tags.clone()).collect();
                        }
                        let rows = outline_rows(s2, s1, s3);
                        f.scenarios.extend(rows.iter().cloned());
                        f.rules[1].scenarios.extend(rows);
                        out.push(f);
                    }
                }
            }
        }
    }
    out
}

/// Thorough: formulas of depth 3 as well (a depth-2 formula combined with an atom, negated).
pub fn formulas_t(thorough: bool) -> Vec<TagExpr> {
    let mut v = formulas();
    if thorough {
        let t = |s: &str| TagExpr::Tag(s.into());
        let atoms = vec![t("a"), t("B"), TagExpr::Not(Box::new(t("a"))), TagExpr::Not(Box::new(t("B")))];
        let deep: Vec<TagExpr> = v[4..].to_vec();
        for f in &deep {
            for a in &atoms {
                v.push(TagExpr::And(Box::new(f.clone()), Box::new(a.clone())));
                v.push(TagExpr::Or(Box::new(a.clone()), Box::new(f.clone())));
            }
            v.push(TagExpr::Not(Box::new(f.clone())));
        }
    }
    v
}

pub fn formulas() -> Vec<TagExpr> {
    let t = |s: &str| TagExpr::Tag(s.into());
    let ops = vec![t("a"), t("B"), TagExpr::Not(Box::new(t("a"))), TagExpr::Not(Box::new(t("B")))];
    let mut v = ops.clone();
    for l in &ops {
        for r in &ops {
            v.push(TagExpr::And(Box::new(l.clone()), Box::new(r.clone())));
            v.push(TagExpr::Or(Box::new(l.clone()), Box::new(r.clone())));
        }
    }
    for (l, r) in [("a", "B"), ("B", "a"), ("a", "a")] {
        v.push(TagExpr::Not(Box::new(TagExpr::And(Box::new(t(l)), Box::new(t(r))))));
        v.push(TagExpr::Not(Box::new(TagExpr::Or(Box::new(t(l)), Box::new(t(r))))));
    }
    v.push(TagExpr::Or(
        Box::new(TagExpr::And(Box::new(t("a")), Box::new(t("B")))),
        Box::new(TagExpr::Not(Box::new(t("a")))),
    ));
    v
}

/// (the empty regex matches every name; the one before it is compiled case-insensitively: by a `RegexBuilder` flag when the options are
/// built programmatically, by an inline flag when they come from the command line)
pub const REGEXES: [&str; 6] = ["alpha", "^beta$", "a.*a", "zzz", "ALPHA", ""];

fn name_regex(r: usize, via_clap: bool) -> Regex {
    if r == 4 && !via_clap {
        regex::RegexBuilder::new(REGEXES[r]).case_insensitive(true).build().unwrap()
    } else if r == 4 {
        Regex::new(&format!("(?i){}", REGEXES[r])).unwrap()
    } else {
        Regex::new(REGEXES[r]).unwrap()
    }
}

fn closure(k: usize) -> fn(&gherkin::Feature, Option<&gherkin::Rule>, &gherkin::Scenario) -> bool {
    match k {
        0 => |_, _, _| true,
        1 => |_, _, _| false,
        2 => |_, r, _| r.is_some(),
        _ => |f, _, s| (s.name.len() + f.tags.len()) % 2 == 0,
    }
}

#[derive(Clone, Debug)]
pub struct FilterCfg {
    pub re: Option<usize>,
    pub tags: Option<usize>,
    /// `None`: plain `run()`
    pub closure: Option<usize>,
    /// build `cli::Opts` through real clap parsing (only legal combinations)
    pub via_clap: bool,
    /// through `run_and_exit()` / `filter_run_and_exit()` instead of `run()` / `filter_run()`
    pub exit: bool,
}

pub fn filter_cfgs(nform: usize) -> Vec<FilterCfg> {
    let mut v = Vec::new();
    v.push(FilterCfg { re: None, tags: None, closure: None, via_clap: false, exit: false });
    v.push(FilterCfg { re: None, tags: None, closure: None, via_clap: true, exit: false });
    for t in 0..nform {
        v.push(FilterCfg { re: None, tags: Some(t), closure: None, via_clap: false, exit: false });
        v.push(FilterCfg { re: None, tags: Some(t), closure: None, via_clap: true, exit: false });
    }
    for r in 0..REGEXES.len() {
        v.push(FilterCfg { re: Some(r), tags: None, closure: None, via_clap: false, exit: false });
        v.push(FilterCfg { re: Some(r), tags: None, closure: None, via_clap: true, exit: false });
    }
    for c in 0..4 {
        v.push(FilterCfg { re: None, tags: None, closure: Some(c), via_clap: false, exit: false });
    }
    // combinations of sources (precedence): name > tags > closure
    for r in [0usize, 3, 5] {
        for t in [0usize, 2, 9] {
            v.push(FilterCfg { re: Some(r), tags: Some(t), closure: None, via_clap: false, exit: false });
            for c in [1usize, 2] {
                v.push(FilterCfg { re: Some(r), tags: Some(t), closure: Some(c), via_clap: false, exit: false });
            }
        }
        for c in [1usize, 3] {
            v.push(FilterCfg { re: Some(r), tags: None, closure: Some(c), via_clap: false, exit: false });
        }
    }
    for t in [1usize, 5, 20] {
        for c in [0usize, 1, 2] {
            v.push(FilterCfg { re: None, tags: Some(t), closure: Some(c), via_clap: false, exit: false });
        }
    }
    // every configuration through the `_and_exit` entry points as well
    let n = v.len();
    for i in 0..n {
        let mut c = v[i].clone();
        c.exit = true;
        v.push(c);
    }
    v
}

type Opts = cli::Opts<cli::Empty, runner::basic::Cli, cli::Empty, cli::Empty>;

fn opts(fc: &FilterCfg, forms: &[TagExpr]) -> Opts {
    if fc.via_clap {
        let mut args: Vec<String> = vec!["prog".into()];
        if let Some(r) = fc.re {
            args.push("--name".into());
            args.push(name_regex(r, true).as_str().to_owned());
        }
        if let Some(t) = fc.tags {
            args.push("--tags".into());
            args.push(forms[t].render());
        }
        <Opts as clap::Parser>::try_parse_from(args).expect("clap")
    } else {
        Opts {
            re_filter: fc.re.map(|r| name_regex(r, false)),
            tags_filter: fc.tags.map(|t| forms[t].render().parse::<TagOperation>().expect("tagexpr")),
            parser: cli::Empty,
            runner: runner::basic::Cli::default(),
            writer: cli::Empty,
            custom: cli::Empty,
        }
    }
}

/// The reference filter of the statement.
fn accepts(
    fc: &FilterCfg,
    forms: &[TagExpr],
    f: &gherkin::Feature,
    r: Option<&gherkin::Rule>,
    s: &gherkin::Scenario,
) -> bool {
    if let Some(re) = fc.re {
        return name_regex(re, fc.via_clap).is_match(&s.name);
    }
    if let Some(t) = fc.tags {
        let mut all: Vec<&str> = f.tags.iter().map(String::as_str).collect();
        if let Some(r) = r {
            all.extend(r.tags.iter().map(String::as_str));
        }
        all.extend(s.tags.iter().map(String::as_str));
        return forms[t].eval(&all);
    }
    match fc.closure {
        Some(c) => closure(c)(f, r, s),
        None => true,
    }
}

fn expected(fc: &FilterCfg, forms: &[TagExpr], f: &gherkin::Feature) -> gherkin::Feature {
    let mut out = f.clone();
    out.scenarios = f.scenarios.iter().filter(|s| accepts(fc, forms, f, None, s)).cloned().collect();
    for (ri, r) in f.rules.iter().enumerate() {
        out.rules[ri].scenarios =
            r.scenarios.iter().filter(|s| accepts(fc, forms, f, Some(r), s)).cloned().collect();
    }
    out
}

pub fn run_one(fc: &FilterCfg, forms: &[TagExpr], feats: &[gherkin::Feature]) -> Option<String> {
    RECEIVED.with(|r| r.borrow_mut().clear());
    let c = Cucumber::<TW, StubParser, (), RecordingRunner, Rec, cli::Empty>::custom(
        StubParser(feats.to_vec()),
        RecordingRunner,
        Rec::default(),
    )
    .with_cli(opts(fc, forms));
    match (fc.closure, fc.exit) {
        (Some(k), false) => {
            let _ = c.filter_run((), closure(k)).now_or_never().expect("suspended");
        }
        (None, false) => {
            let _ = c.run(()).now_or_never().expect("suspended");
        }
        // (nothing fails behind the recording runner, so these return normally)
        (Some(k), true) => c.filter_run_and_exit((), closure(k)).now_or_never().expect("suspended"),
        (None, true) => c.run_and_exit(()).now_or_never().expect("suspended"),
    }
    let got = RECEIVED.with(|r| r.borrow().clone());
    if got.len() != feats.len() {
        return Some(format!("runner received {} features of {}", got.len(), feats.len()));
    }
    for (g, f) in got.iter().zip(feats) {
        let want = expected(fc, forms, f);
        match g {
            Err(e) => return Some(format!("runner received an error {e}")),
            Ok(g) => {
                if format!("{g:?}") != format!("{want:?}") {
                    let names = |x: &gherkin::Feature| {
                        let mut v: Vec<String> = x.scenarios.iter().map(|s| s.name.clone()).collect();
                        for r in &x.rules {
                            v.push(format!("[{}]", r.scenarios.iter().map(|s| s.name.clone()).collect::<Vec<_>>().join(",")));
                        }
                        v
                    };
                    return Some(format!(
                        "feature tags {:?}: runner received scenarios {:?}, filter accepts {:?} (or another part of the feature differs)",
                        f.tags,
                        names(g),
                        names(&want)
                    ));
                }
            }
        }
    }
    None
}

// ---------------------------------------------------------------------------
// Builder order: a filter given through `with_cli()` must survive every builder
// method applied afterwards. Checked in a child process with a clean argv: if
// a method drops the options, `filter_run` falls back to parsing the process
// arguments (and `clap` would exit the process on ours).

/// (`with_default_cli` is the one method that must *drop* the filter: the defaults replace it)
pub const ORDER_METHODS: [&str; 15] = [
    "before", "after", "which_scenario", "steps", "given", "max_concurrent_scenarios", "retries",
    "fail_fast", "retry_after", "retry_filter", "retry_options", "repeat_skipped", "repeat_failed",
    "fail_on_skipped", "with_default_cli",
];
const ORDER_FILTERS: [(Option<usize>, Option<usize>); 3] = [(None, Some(0)), (Some(0), None), (None, Some(4))];

fn started_names(rec: &Rec) -> Vec<String> {
    let mut v = Vec::new();
    for e in rec.events() {
        if let crate::canon::Ev::Sc { s, ev: crate::canon::ScEv::Started, .. } = e {
            v.push(s);
        }
    }
    v
}

/// Runs one (method, filter) pair; returns `None` if the filter was honoured.
pub fn order_case(m: usize, fi: usize) -> Option<String> {
    use cucumber::{runner::Basic, ScenarioType};
    let forms = formulas();
    let (re, tags) = ORDER_FILTERS[fi];
    let fc = FilterCfg { re, tags, closure: None, via_clap: false, exit: false };
    let feat = features().swap_remove(200);
    let expected: Vec<String> = {
        let none = FilterCfg { re: None, tags: None, closure: None, via_clap: false, exit: false };
        let e = expected(if ORDER_METHODS[m] == "with_default_cli" { &none } else { &fc }, &forms, &feat);
        e.scenarios.iter().chain(e.rules.iter().flat_map(|r| &r.scenarios)).map(|s| s.name.clone()).collect()
    };
    let all: usize = feat.scenarios.len() + feat.rules.iter().map(|r| r.scenarios.len()).sum::<usize>();
    let c = Cucumber::<TW, StubParser, (), Basic<TW>, Rec, cli::Empty>::custom(
        StubParser(vec![feat]),
        Basic::default(),
        Rec::default(),
    )
    .with_cli(opts(&fc, &forms));
    fn finish<R, Wr>(c: Cucumber<TW, StubParser, (), R, Wr, cli::Empty>, get: fn(&Wr) -> Vec<String>) -> Vec<String>
    where
        R: Runner<TW>,
        Wr: cucumber::Writer<TW> + cucumber::writer::Normalized,
    {
        let w = futures::executor::block_on(c.run(()));
        get(&w)
    }
    let plain = |w: &Rec| started_names(w);
    let got = match ORDER_METHODS[m] {
        "before" => finish(c.before(crate::hs::before_hook), plain),
        "after" => finish(c.after(crate::hs::after_hook), plain),
        "which_scenario" => finish(c.which_scenario(|_, _, _| ScenarioType::Concurrent), plain),
        "steps" => finish(c.steps(crate::spec::collection()), plain),
        "given" => finish(c.given(Regex::new("^never$").unwrap(), crate::hs::step_fn), plain),
        "max_concurrent_scenarios" => finish(c.max_concurrent_scenarios(2), plain),
        "retries" => finish(c.retries(1), plain),
        "fail_fast" => finish(c.fail_fast(), plain),
        "retry_after" => finish(c.retry_after(std::time::Duration::from_millis(1)), plain),
        "retry_filter" => finish(c.retry_filter("@a".parse::<TagOperation>().unwrap()), plain),
        "retry_options" => finish(c.retry_options(|_, _, _, _| None), plain),
        "repeat_skipped" => finish(c.repeat_skipped(), |w| started_names(w.inner_writer())),
        "repeat_failed" => finish(c.repeat_failed(), |w| started_names(w.inner_writer())),
        "with_default_cli" => finish(c.with_default_cli(), plain),
        _ => finish(c.fail_on_skipped(), |w| started_names(w.inner_writer())),
    };
    // Repeat re-emits nothing that is a scenario Started, so the lists compare directly
    (got != expected).then(|| {
        format!(
            "with_cli(filter {fc:?}) followed by .{}(..): scenarios run {got:?}, the filter accepts {expected:?} (of {all})",
            ORDER_METHODS[m]
        )
    })
}

/// Entry point of the child process (`VERIF_C15_ORDER=m:f`, no arguments).
pub fn order_child(spec: &str) -> i32 {
    let (m, f) = spec.split_once(':').expect("m:f");
    std::panic::set_hook(Box::new(|_| {}));
    match order_case(m.parse().unwrap(), f.parse().unwrap()) {
        None => {
            println!("ORDER-OK");
            0
        }
        Some(msg) => {
            println!("ORDER-BAD {msg}");
            0
        }
    }
}

fn order_checks(a: &ShardArgs, violations: &mut Vec<serde_json::Value>) -> usize {
    let exe = std::env::current_exe().expect("exe");
    let mut n = 0;
    for m in 0..ORDER_METHODS.len() {
        for f in 0..ORDER_FILTERS.len() {
            n += 1;
            if !a.mine(n) {
                continue;
            }
            let out = std::process::Command::new(&exe).env("VERIF_C15_ORDER", format!("{m}:{f}")).output();
            let verdict = match out {
                Ok(o) => {
                    let so = String::from_utf8_lossy(&o.stdout).into_owned();
                    if so.contains("ORDER-OK") {
                        None
                    } else if let Some(i) = so.find("ORDER-BAD ") {
                        Some(so[i + 10..].trim().to_owned())
                    } else {
                        Some(format!(
                            "with_cli(..) followed by .{}(..): the run did not use the given options (child exited with {:?}: {})",
                            ORDER_METHODS[m],
                            o.status.code(),
                            String::from_utf8_lossy(&o.stderr).lines().next().unwrap_or("")
                        ))
                    }
                }
                Err(e) => Some(format!("cannot spawn the child process: {e}")),
            };
            if let Some(msg) = verdict {
                violations.push(json!({
                    "engine": "hist", "property": "C15", "tier": a.tier, "key": "filter-lost-by-builder",
                    "order_case": format!("{m}:{f}"), "message": msg,
                }));
            }
        }
    }
    n
}

pub fn run(a: &ShardArgs) -> serde_json::Value {
    let feats = features_t(a.thorough);
    let forms = formulas_t(a.thorough);
    let fcs = filter_cfgs(forms.len());
    let chunk = if a.thorough { 1 } else { 4 };
    // quick: features in groups of 4 (several features per run also checks order)
    let groups: Vec<&[gherkin::Feature]> = feats.chunks(chunk).collect();
    let mut evaluations = 0usize;
    let mut nontrivial = 0usize;
    let mut violations = Vec::new();
    let mut samples = Vec::new();
    let mut skipped = 0usize;
    let mut n = 0usize;
    for (fi, fc) in fcs.iter().enumerate() {
        for (gi, g) in groups.iter().enumerate() {
            n += 1;
            if !a.mine(n) {
                continue;
            }
            if n % 256 == 0 && a.out_of_time() {
                skipped += 1;
            }
            if skipped > 0 {
                skipped += 1;
                continue;
            }
            evaluations += 1;
            let total: usize = g.iter().map(|f| f.scenarios.len() + f.rules.iter().map(|r| r.scenarios.len()).sum::<usize>()).sum();
            let kept: usize = g
                .iter()
                .map(|f| {
                    let e = expected(fc, &forms, f);
                    e.scenarios.len() + e.rules.iter().map(|r| r.scenarios.len()).sum::<usize>()
                })
                .sum();
            if kept != 0 && kept != total {
                nontrivial += 1;
            }
            if let Some(msg) = run_one(fc, &forms, g) {
                if violations.len() < 30 {
                    violations.push(json!({
                        "engine": "hist", "property": "C15", "tier": a.tier, "key": "filter",
                        "filter_index": fi, "group_index": gi, "chunk": chunk,
                        "message": format!("{fc:?} ({}): {msg}", fc.tags.map(|t| forms[t].render()).unwrap_or_default()),
                    }));
                }
            }
            if samples.len() < 3 && kept != 0 && kept != total && n % 97 == 0 {
                samples.push(json!({
                    "filter": format!("{fc:?}"),
                    "tags_formula": fc.tags.map(|t| forms[t].render()),
                    "feature_tags": g[0].tags, "scenarios_total": total, "scenarios_kept": kept,
                }));
            }
        }
    }
    let order_n = order_checks(a, &mut violations);
    evaluations += order_n / a.sn.max(1);
    json!({
        "property": "C15", "tier": a.tier,
        "total_configs": fcs.len() * groups.len(), "configs_done": evaluations, "configs_skipped_budget": skipped,
        "evaluations": evaluations, "distinct_nontrivial": nontrivial,
        "rule": format!("{} filter configurations ({} tag formulas of depth <= 2 (thorough: 3) over {{a,b}} directly and through clap, 6 name regexes (one empty, one case-insensitive), 4 closures, precedence combinations, each through run / filter_run and through run_and_exit / filter_run_and_exit) x {} feature groups; plus 15 builder methods applied after with_cli(filter) x 3 filters (with_default_cli must drop the filter, the others keep it), each in a child process with a clean argv ({} features: tags on feature x rule x scenarios); non-trivial = the filter keeps some but not all scenarios", fcs.len(), forms.len(), groups.len(), feats.len()),
        "exhaustive": skipped == 0,
        "violations": violations, "samples": samples,
    })
}

pub fn replay(j: &serde_json::Value) -> i32 {
    if let Some(spec) = j["order_case"].as_str() {
        let (m, f) = spec.split_once(':').unwrap();
        return match order_case(m.parse().unwrap(), f.parse().unwrap()) {
            Some(msg) => {
                println!("violation C15: {msg}");
                1
            }
            None => {
                println!("holds");
                0
            }
        };
    }
    let thorough = j["tier"].as_str() == Some("thorough");
    let feats = features_t(thorough);
    let forms = formulas_t(thorough);
    let fcs = filter_cfgs(forms.len());
    let chunk = j["chunk"].as_u64().unwrap() as usize;
    let groups: Vec<&[gherkin::Feature]> = feats.chunks(chunk).collect();
    let fc = &fcs[j["filter_index"].as_u64().unwrap() as usize];
    let g = groups[j["group_index"].as_u64().unwrap() as usize];
    println!("{fc:?}");
    match run_one(fc, &forms, g) {
        Some(m) => {
            println!("violation C15: {m}");
            1
        }
        None => {
            println!("holds");
            0
        }
    }
}
