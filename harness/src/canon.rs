//! Canonical, comparable rendering of the events of the real stream.

use std::sync::Arc;

use cucumber::{
    event::{self, Cucumber, Feature, Hook, HookType, Info, Rule, Scenario, Step, StepError},
    parser, Event,
};

use crate::hs::{CustomPayload, TW};

/// Identity of a rule in the canonical events: its name, or - in harness features whose rules
/// share a name or have none (`@twin-rules` / `@unnamed-rules`) - `<feature>.R<k>` by position.
pub fn rule_id(f: &gherkin::Feature, r: &gherkin::Rule) -> String {
    if f.tags.iter().any(|t| t == "twin-rules" || t == "unnamed-rules") {
        let k = f.rules.iter().position(|x| x.position.line == r.position.line).map_or(0, |k| k + 1);
        format!("{}.R{k}", f.name)
    } else {
        r.name.clone()
    }
}

pub fn payload(info: &Info) -> String {
    if let Some(s) = info.downcast_ref::<String>() {
        format!("String:{s}")
    } else if let Some(s) = info.downcast_ref::<&'static str>() {
        format!("str:{s}")
    } else if let Some(c) = info.downcast_ref::<CustomPayload>() {
        format!("Custom:{}", c.0)
    } else if let Some(e) = info.downcast_ref::<Box<dyn std::error::Error + Send + Sync>>() {
        format!("BoxErr:{e}")
    } else if info.downcast_ref::<cucumber::verif::IdleSpin>().is_some() {
        "IdleSpin".into()
    } else {
        "Unknown".into()
    }
}

pub fn step_error(e: &StepError) -> String {
    match e {
        StepError::NotFound => "NotFound".into(),
        StepError::AmbiguousMatch(a) => {
            let mut v: Vec<String> = a
                .possible_matches
                .iter()
                .map(|(re, loc)| match loc {
                    Some(l) => format!("{}@{}", re.as_str(), l.line),
                    None => re.as_str().to_owned(),
                })
                .collect();
            v.sort();
            format!("Ambiguous[{}]", v.join(" | "))
        }
        StepError::Panic(info) => format!("Panic({})", payload(info)),
    }
}

#[derive(Clone, Debug, PartialEq, Eq, Hash)]
pub enum StepEv {
    Started,
    Passed,
    Skipped,
    /// error rendering, world id
    Failed(String, Option<usize>),
}

#[derive(Clone, Copy, Debug, PartialEq, Eq, Hash)]
pub enum HookKind {
    Before,
    After,
}

#[derive(Clone, Debug, PartialEq, Eq, Hash)]
pub enum HookEv {
    Started,
    Passed,
    /// payload, world id
    Failed(String, Option<usize>),
}

#[derive(Clone, Debug, PartialEq, Eq, Hash)]
pub enum ScEv {
    Started,
    Finished,
    Hook(HookKind, HookEv),
    /// is_background, text, line
    Step(bool, String, usize, StepEv),
    Log(String),
}

impl ScEv {
    pub fn short(&self) -> String {
        match self {
            ScEv::Started => "Started".into(),
            ScEv::Finished => "Finished".into(),
            ScEv::Hook(k, e) => format!("Hook({k:?},{e:?})"),
            ScEv::Step(bg, t, _, e) => {
                format!("{}('{t}',{e:?})", if *bg { "Bg" } else { "Step" })
            }
            ScEv::Log(s) => format!("Log({s})"),
        }
    }
}

#[derive(Clone, Debug, PartialEq, Eq, Hash)]
pub enum Ev {
    ParseErr(String),
    Started,
    ParsingFinished {
        features: usize,
        rules: usize,
        scenarios: usize,
        steps: usize,
        parser_errors: usize,
    },
    Finished,
    FeatStarted(String),
    FeatFinished(String),
    RuleStarted(String, String),
    RuleFinished(String, String),
    Sc {
        f: String,
        r: Option<String>,
        s: String,
        /// `Source` pointer identities (feature, rule, scenario)
        ptrs: (usize, usize, usize),
        /// (current, left)
        retries: Option<(usize, usize)>,
        ev: ScEv,
    },
}

impl Ev {
    pub fn short(&self) -> String {
        match self {
            Ev::Sc { s, retries, ev, .. } => {
                let r = retries
                    .map(|(c, l)| format!("[{c}/{l}]"))
                    .unwrap_or_default();
                format!("{s}{r}.{}", ev.short())
            }
            other => format!("{other:?}"),
        }
    }
    pub fn scenario(&self) -> Option<(&str, Option<(usize, usize)>, &ScEv)> {
        match self {
            Ev::Sc { s, retries, ev, .. } => Some((s.as_str(), *retries, ev)),
            _ => None,
        }
    }
    pub fn feature_name(&self) -> Option<&str> {
        match self {
            Ev::FeatStarted(f)
            | Ev::FeatFinished(f)
            | Ev::RuleStarted(f, _)
            | Ev::RuleFinished(f, _) => Some(f),
            Ev::Sc { f, .. } => Some(f),
            _ => None,
        }
    }
}

fn ptr<T>(s: &event::Source<T>) -> usize {
    let r: &T = s;
    std::ptr::from_ref(r) as usize
}

fn world_id(w: &Option<Arc<TW>>) -> Option<usize> {
    w.as_ref().map(|w| w.id)
}

fn step_ev(e: &Step<TW>) -> StepEv {
    match e {
        Step::Started => StepEv::Started,
        Step::Skipped => StepEv::Skipped,
        Step::Passed(..) => StepEv::Passed,
        Step::Failed(_, _, w, err) => StepEv::Failed(step_error(err), world_id(w)),
    }
}

fn sc_ev(e: &Scenario<TW>) -> ScEv {
    match e {
        Scenario::Started => ScEv::Started,
        Scenario::Finished => ScEv::Finished,
        Scenario::Hook(t, h) => ScEv::Hook(
            match t {
                HookType::Before => HookKind::Before,
                HookType::After => HookKind::After,
            },
            match h {
                Hook::Started => HookEv::Started,
                Hook::Passed => HookEv::Passed,
                Hook::Failed(w, info) => HookEv::Failed(payload(info), world_id(w)),
            },
        ),
        Scenario::Background(s, e) => {
            ScEv::Step(true, s.value.clone(), s.position.line, step_ev(e))
        }
        Scenario::Step(s, e) => {
            ScEv::Step(false, s.value.clone(), s.position.line, step_ev(e))
        }
        Scenario::Log(l) => ScEv::Log(l.clone()),
    }
}

pub fn parse_err(e: &parser::Error) -> String {
    match e {
        parser::Error::Parsing(p) => format!("Parsing({p})"),
        parser::Error::ExampleExpansion(x) => format!("Expansion({})", x.name),
    }
}

pub fn canon(item: &parser::Result<Event<Cucumber<TW>>>) -> Ev {
    match item {
        Err(e) => Ev::ParseErr(parse_err(e)),
        Ok(ev) => match &ev.value {
            Cucumber::Started => Ev::Started,
            Cucumber::Finished => Ev::Finished,
            Cucumber::ParsingFinished {
                features,
                rules,
                scenarios,
                steps,
                parser_errors,
            } => Ev::ParsingFinished {
                features: *features,
                rules: *rules,
                scenarios: *scenarios,
                steps: *steps,
                parser_errors: *parser_errors,
            },
            Cucumber::Feature(f, fe) => match fe {
                Feature::Started => Ev::FeatStarted(f.name.clone()),
                Feature::Finished => Ev::FeatFinished(f.name.clone()),
                Feature::Scenario(s, re) => Ev::Sc {
                    f: f.name.clone(),
                    r: None,
                    s: s.name.clone(),
                    ptrs: (ptr(f), 0, ptr(s)),
                    retries: re.retries.map(|r| (r.current, r.left)),
                    ev: sc_ev(&re.event),
                },
                Feature::Rule(r, re) => match re {
                    Rule::Started => Ev::RuleStarted(f.name.clone(), rule_id(f, r)),
                    Rule::Finished => Ev::RuleFinished(f.name.clone(), rule_id(f, r)),
                    Rule::Scenario(s, re) => Ev::Sc {
                        f: f.name.clone(),
                        r: Some(rule_id(f, r)),
                        s: s.name.clone(),
                        ptrs: (ptr(f), ptr(r), ptr(s)),
                        retries: re.retries.map(|r| (r.current, r.left)),
                        ev: sc_ev(&re.event),
                    },
                },
            },
        },
    }
}
