//! Reference models: retry resolution, tag expressions, one scenario attempt.
//!
//! Written from the property statements, not from the implementation.

use std::{collections::BTreeMap, time::Duration};

use crate::{
    canon::{HookEv, HookKind, ScEv, StepEv},
    hs::{Outcome, Plan},
    spec::{Config, ScenInfo, StepKind},
};

// ------------------------------------------------------------ tag expressions

#[derive(Clone, Debug, PartialEq, Eq)]
pub enum TagExpr {
    Tag(String),
    Not(Box<TagExpr>),
    And(Box<TagExpr>, Box<TagExpr>),
    Or(Box<TagExpr>, Box<TagExpr>),
}

impl TagExpr {
    pub fn eval(&self, tags: &[&str]) -> bool {
        match self {
            TagExpr::Tag(t) => tags.contains(&t.as_str()),
            TagExpr::Not(e) => !e.eval(tags),
            TagExpr::And(a, b) => a.eval(tags) && b.eval(tags),
            TagExpr::Or(a, b) => a.eval(tags) || b.eval(tags),
        }
    }
    /// Rendering in the syntax `gherkin::tagexpr` parses (fully parenthesised).
    pub fn render(&self) -> String {
        match self {
            TagExpr::Tag(t) => format!("@{t}"),
            TagExpr::Not(e) => format!("not ({})", e.render()),
            TagExpr::And(a, b) => format!("({}) and ({})", a.render(), b.render()),
            TagExpr::Or(a, b) => format!("({}) or ({})", a.render(), b.render()),
        }
    }
    /// Tiny recursive-descent parser (or < and < not), for filters written as text.
    pub fn parse(s: &str) -> TagExpr {
        let toks: Vec<String> = s
            .replace('(', " ( ")
            .replace(')', " ) ")
            .split_whitespace()
            .map(str::to_owned)
            .collect();
        let mut pos = 0;
        let e = Self::p_or(&toks, &mut pos);
        assert_eq!(pos, toks.len(), "trailing tokens in tag expr {s}");
        e
    }
    fn p_or(t: &[String], pos: &mut usize) -> TagExpr {
        let mut l = Self::p_and(t, pos);
        while *pos < t.len() && t[*pos] == "or" {
            *pos += 1;
            let r = Self::p_and(t, pos);
            l = TagExpr::Or(Box::new(l), Box::new(r));
        }
        l
    }
    fn p_and(t: &[String], pos: &mut usize) -> TagExpr {
        let mut l = Self::p_not(t, pos);
        while *pos < t.len() && t[*pos] == "and" {
            *pos += 1;
            let r = Self::p_not(t, pos);
            l = TagExpr::And(Box::new(l), Box::new(r));
        }
        l
    }
    fn p_not(t: &[String], pos: &mut usize) -> TagExpr {
        if t[*pos] == "not" {
            *pos += 1;
            return TagExpr::Not(Box::new(Self::p_not(t, pos)));
        }
        if t[*pos] == "(" {
            *pos += 1;
            let e = Self::p_or(t, pos);
            assert_eq!(t[*pos], ")");
            *pos += 1;
            return e;
        }
        let tag = t[*pos].trim_start_matches('@').to_owned();
        *pos += 1;
        TagExpr::Tag(tag)
    }
}

// ------------------------------------------------------------ retry resolving

/// `(N, delay)` parts of a `@retry…` tag: `Some((num, after))`.
pub fn parse_retry_tag(tag: &str) -> Option<(Option<usize>, Option<Duration>)> {
    // exactly `retry`, `retry(N)`, `retry.after(D)` or `retry(N).after(D)`; a tag that
    // merely starts with `retry` (`retryable`) is an ordinary tag
    let mut rest = tag.strip_prefix("retry")?;
    let mut num = None;
    if let Some(r) = rest.strip_prefix('(') {
        let (n, rest2) = r.split_once(')')?;
        num = Some(n.parse::<usize>().ok()?);
        rest = rest2;
    }
    let mut after = None;
    if let Some(a) = rest.strip_prefix(".after(") {
        let (d, rest2) = a.split_once(')')?;
        after = Some(parse_dur(d)?);
        rest = rest2;
    }
    rest.is_empty().then_some((num, after))
}

/// Durations of the small alphabet used by the harness: `<int>s`, `<int>ms`, `<int>us`, `<int>m`.
pub fn parse_dur(s: &str) -> Option<Duration> {
    if let Some(n) = s.strip_suffix("us") {
        return n.parse().ok().map(Duration::from_micros);
    }
    if let Some(n) = s.strip_suffix("ms") {
        return n.parse().ok().map(Duration::from_millis);
    }
    if let Some(n) = s.strip_suffix('s') {
        return n.parse().ok().map(Duration::from_secs);
    }
    if let Some(n) = s.strip_suffix('m') {
        return n.parse::<u64>().ok().map(|m| Duration::from_secs(m * 60));
    }
    None
}

#[derive(Clone, Debug, Default)]
pub struct RetrySources {
    pub cli_retry: Option<usize>,
    pub cli_after: Option<Duration>,
    pub cli_filter: Option<TagExpr>,
    pub b_retry: Option<usize>,
    pub b_after: Option<Duration>,
    pub b_filter: Option<TagExpr>,
}

/// The precedence written in C18.
pub fn resolve_retry(
    sc_tags: &[String],
    rule_tags: &[String],
    feat_tags: &[String],
    src: &RetrySources,
) -> Option<(usize, Option<Duration>)> {
    let nearest = [sc_tags, rule_tags, feat_tags]
        .iter()
        .find_map(|tags| tags.iter().find_map(|t| parse_retry_tag(t)));
    let conf_retry = src.cli_retry.or(src.b_retry);
    let conf_after = src.cli_after.or(src.b_after);
    let filter = src.cli_filter.as_ref().or(src.b_filter.as_ref());
    match nearest {
        Some((num, after)) => Some((num.or(conf_retry).unwrap_or(1), after.or(conf_after))),
        None => {
            let all: Vec<&str> = sc_tags
                .iter()
                .chain(rule_tags)
                .chain(feat_tags)
                .map(String::as_str)
                .collect();
            let selected = match filter {
                Some(f) => f.eval(&all),
                None => conf_retry.is_some() || conf_after.is_some(),
            };
            selected.then(|| (conf_retry.unwrap_or(1), conf_after))
        }
    }
}

pub fn retry_sources(cfg: &Config) -> RetrySources {
    RetrySources {
        cli_retry: cfg.retries_cli,
        cli_after: cfg.retry_after_cli,
        cli_filter: cfg.retry_filter_cli.as_deref().map(TagExpr::parse),
        b_retry: cfg.retries_builder,
        b_after: cfg.retry_after_builder,
        b_filter: cfg.retry_filter_builder.as_deref().map(TagExpr::parse),
    }
}

pub fn scen_retry(cfg: &Config, info: &ScenInfo) -> Option<(usize, Option<Duration>)> {
    if cfg.retry_policy {
        return info.has_tag("pol").then_some((2, None));
    }
    resolve_retry(&info.tags_sc, &info.tags_rule, &info.tags_feat, &retry_sources(cfg))
}

pub fn is_serial(cfg: &Config, info: &ScenInfo) -> bool {
    if cfg.custom_which {
        info.has_tag("solo") || info.own_steps == 3
    } else {
        info.has_tag("serial")
    }
}

// ------------------------------------------------------------- one attempt

/// What `World::new()` did for this attempt, read off the observation (the
/// payload carries the global call index, see `hs::TW::new`).
#[derive(Clone, Copy, Debug, PartialEq, Eq)]
pub enum WorldObs {
    Ok,
    Err(usize),
    Panic(usize),
}

pub const AMBIG_RENDER: &str =
    r"Ambiguous[^a?ambig-(step|bg|rbg) (\S+) (\d+)$@1 | ^a?ambig-(step|bg|rbg) (\S+) (\d+)$@2 | ^ambig-x?\S+ .*$]";

pub fn panic_payload(o: Outcome, key: &str, inv: usize) -> String {
    match o {
        Outcome::Pass => unreachable!(),
        Outcome::PanicString => format!("String:boom {key}#{inv}"),
        Outcome::PanicOnThread => format!("BoxErr:boom {key}#{inv}"),
        Outcome::PanicStr => "str:boom-static".into(),
        Outcome::PanicCustom => format!("Custom:{key}#{inv}"),
    }
}

/// A call the attempt is predicted to make into user code.
#[derive(Clone, Debug, PartialEq, Eq)]
pub struct CallPred {
    pub key: String,
    /// Whether a World is passed (always for before/steps; maybe for after).
    pub has_world: bool,
    /// Number of mutating callables that ran on this World before.
    pub counter: usize,
    /// Invocation index; `None` if it cannot be predicted (shared background step).
    pub inv: Option<usize>,
}

#[derive(Clone, Debug)]
pub struct AttemptPred {
    /// Expected events; world ids are `Some(0)` for "a World" / `None`.
    pub events: Vec<ScEv>,
    pub failed: bool,
    pub skipped: bool,
    pub calls: Vec<CallPred>,
    pub world_new_calls: usize,
    pub after_reason: Option<String>,
}

/// Invocation counters of the callables owned by one scenario.
pub type InvCounters = BTreeMap<String, usize>;

fn norm_world(w: bool) -> Option<usize> {
    w.then_some(0)
}

/// Predicts one attempt (Appendix A of DESIGN.md).
///
/// `shared_bg`: background step keys shared with other scenarios (their plan
/// must be invocation-uniform; invocation index 0 is used).
pub fn predict_attempt(
    info: &ScenInfo,
    before: bool,
    after: bool,
    plan: &Plan,
    inv: &mut InvCounters,
    shared_bg: bool,
    world: WorldObs,
) -> AttemptPred {
    let mut ev = vec![ScEv::Started];
    let mut calls = Vec::new();
    let mut have_world = false;
    let mut world_calls = 0usize;
    let mut counter = 0usize;
    let mut deferred: Option<ScEv> = None;
    let mut reason = "StepPassed".to_owned();
    let mut skipped = false;

    let world_fail = |w: WorldObs, hook: bool| -> Option<String> {
        match w {
            WorldObs::Ok => None,
            WorldObs::Err(n) => Some(format!("WorldErr#{n}")),
            WorldObs::Panic(n) => Some(if hook {
                format!("String:world-panic#{n}")
            } else {
                format!("String:world-panic#{n}")
            }),
        }
    };
    let mut take_inv = |key: &str, shared: bool, inv: &mut InvCounters| -> Option<usize> {
        if shared {
            None
        } else {
            let c = inv.entry(key.to_owned()).or_insert(0);
            let v = *c;
            *c += 1;
            Some(v)
        }
    };

    if before {
        ev.push(ScEv::Hook(HookKind::Before, HookEv::Started));
        world_calls += 1;
        match world_fail(world, true) {
            Some(p) => {
                deferred = Some(ScEv::Hook(HookKind::Before, HookEv::Failed(p.clone(), None)));
                reason = format!("BeforeHookFailed({p})");
            }
            None => {
                have_world = true;
                let key = format!("before {}", info.name);
                let i = take_inv(&key, false, inv);
                calls.push(CallPred { key: key.clone(), has_world: true, counter, inv: i });
                counter += 1;
                let o = plan.outcome(&key, i.unwrap_or(0));
                if o.is_fail() {
                    let p = panic_payload(o, &key, i.unwrap_or(0));
                    deferred =
                        Some(ScEv::Hook(HookKind::Before, HookEv::Failed(p.clone(), Some(0))));
                    reason = format!("BeforeHookFailed({p})");
                } else {
                    ev.push(ScEv::Hook(HookKind::Before, HookEv::Passed));
                }
            }
        }
    }

    if deferred.is_none() {
        for c in &info.calls {
            // line is not predicted (0); compared without it
            ev.push(ScEv::Step(c.is_bg, c.text.clone(), 0, StepEv::Started));
            match c.kind {
                StepKind::NoMatch => {
                    ev.push(ScEv::Step(c.is_bg, c.text.clone(), 0, StepEv::Skipped));
                    reason = "StepSkipped".into();
                    skipped = true;
                    break;
                }
                StepKind::Ambiguous => {
                    deferred = Some(ScEv::Step(
                        c.is_bg,
                        c.text.clone(),
                        0,
                        StepEv::Failed(AMBIG_RENDER.into(), norm_world(have_world)),
                    ));
                    reason = format!("StepFailed({AMBIG_RENDER})");
                    break;
                }
                StepKind::Matched => {
                    if !have_world {
                        world_calls += 1;
                        if let Some(p) = world_fail(world, false) {
                            let r = format!("Panic({p})");
                            deferred = Some(ScEv::Step(
                                c.is_bg,
                                c.text.clone(),
                                0,
                                StepEv::Failed(r.clone(), None),
                            ));
                            reason = format!("StepFailed({r})");
                            break;
                        }
                        have_world = true;
                    }
                    let shared = c.is_bg && shared_bg;
                    let i = take_inv(&c.key, shared, inv);
                    calls.push(CallPred { key: c.key.clone(), has_world: true, counter, inv: i });
                    counter += 1;
                    let o = plan.outcome(&c.key, i.unwrap_or(0));
                    if o.is_fail() {
                        let r = format!("Panic({})", panic_payload(o, &c.key, i.unwrap_or(0)));
                        // payload of a shared bg step carries an unpredictable invocation index
                        deferred = Some(ScEv::Step(
                            c.is_bg,
                            c.text.clone(),
                            0,
                            StepEv::Failed(r.clone(), Some(0)),
                        ));
                        reason = format!("StepFailed({r})");
                        break;
                    }
                    ev.push(ScEv::Step(c.is_bg, c.text.clone(), 0, StepEv::Passed));
                }
            }
        }
    }

    let mut after_failed = false;
    let mut after_reason = None;
    let mut after_ev = Vec::new();
    if after {
        let key = format!("after {}", info.name);
        let i = take_inv(&key, false, inv);
        calls.push(CallPred { key: key.clone(), has_world: have_world, counter, inv: i });
        after_reason = Some(reason.clone());
        let o = plan.outcome(&key, i.unwrap_or(0));
        after_ev.push(ScEv::Hook(HookKind::After, HookEv::Started));
        if o.is_fail() {
            after_failed = true;
            after_ev.push(ScEv::Hook(
                HookKind::After,
                HookEv::Failed(panic_payload(o, &key, i.unwrap_or(0)), norm_world(have_world)),
            ));
        } else {
            after_ev.push(ScEv::Hook(HookKind::After, HookEv::Passed));
        }
    }
    let failed = deferred.is_some() || after_failed;
    if let Some(d) = deferred {
        ev.push(d);
    }
    ev.extend(after_ev);
    ev.push(ScEv::Finished);

    AttemptPred {
        events: ev,
        failed,
        skipped,
        calls,
        world_new_calls: world_calls,
        after_reason,
    }
}

/// Normalises an observed scenario event for comparison with a prediction:
/// world ids become `Some(0)`, step lines 0, world-init messages canonical,
/// invocation suffix of shared background payloads dropped on request.
pub fn norm_obs(ev: &ScEv) -> ScEv {
    fn np(p: &str) -> String {
        if let Some(i) = p.find("world-err#") {
            let n: String =
                p[i + "world-err#".len()..].chars().take_while(char::is_ascii_digit).collect();
            let wrapped = p.starts_with("Panic(");
            return if wrapped { format!("Panic(WorldErr#{n})") } else { format!("WorldErr#{n}") };
        }
        p.to_owned()
    }
    match ev {
        ScEv::Hook(k, HookEv::Failed(p, w)) => {
            ScEv::Hook(*k, HookEv::Failed(np(p), w.map(|_| 0)))
        }
        ScEv::Step(bg, t, _, StepEv::Failed(p, w)) => {
            ScEv::Step(*bg, t.clone(), 0, StepEv::Failed(np(p), w.map(|_| 0)))
        }
        ScEv::Step(bg, t, _, e) => ScEv::Step(*bg, t.clone(), 0, e.clone()),
        other => other.clone(),
    }
}

/// Reads the World creation outcome of an attempt off its observed events.
pub fn world_obs(events: &[&ScEv]) -> WorldObs {
    for e in events {
        let p = match e {
            ScEv::Hook(_, HookEv::Failed(p, _)) => p,
            ScEv::Step(_, _, _, StepEv::Failed(p, _)) => p,
            _ => continue,
        };
        for (pat, mk) in [
            ("world-err#", WorldObs::Err as fn(usize) -> WorldObs),
            ("world-panic#", WorldObs::Panic as fn(usize) -> WorldObs),
        ] {
            if let Some(i) = p.find(pat) {
                let n: String =
                    p[i + pat.len()..].chars().take_while(char::is_ascii_digit).collect();
                if let Ok(n) = n.parse() {
                    return mk(n);
                }
            }
        }
    }
    WorldObs::Ok
}
