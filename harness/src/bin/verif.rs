//! `verif sched|hist|replay …` — one shard of one check.

use std::{collections::BTreeMap, time::Instant};

use serde_json::json;
use vcore::{
    exec::{self, ExploreStats},
    families::{self, Tier},
    findings, oracles,
    spec::Config,
};

fn arg(args: &[String], name: &str) -> Option<String> {
    args.iter().position(|a| a == name).and_then(|i| args.get(i + 1).cloned())
}

fn tier_of(s: &str) -> Tier {
    if s == "thorough" {
        Tier::Thorough
    } else {
        Tier::Quick
    }
}

fn sched_configs(prop: &str, tier: Tier) -> Vec<(String, usize, Config)> {
    let mut v = Vec::new();
    for fam in families::families_for(prop) {
        for (i, c) in families::family(fam, tier).into_iter().enumerate() {
            v.push(((*fam).to_owned(), i, c));
        }
    }
    v
}

fn run_sched(args: &[String]) -> i32 {
    let prop = arg(args, "--prop").expect("--prop");
    let tier_s = arg(args, "--tier").unwrap_or_else(|| "quick".into());
    let tier = tier_of(&tier_s);
    let shard = arg(args, "--shard").unwrap_or_else(|| "0/1".into());
    let (si, sn) = shard.split_once('/').unwrap();
    let (si, sn): (usize, usize) = (si.parse().unwrap(), sn.parse().unwrap());
    let seed: usize = arg(args, "--seed").and_then(|s| s.parse().ok()).unwrap_or(0);
    let out_path = arg(args, "--out").expect("--out");
    let hb_path = arg(args, "--heartbeat");
    let budget_s: f64 = arg(args, "--budget").and_then(|s| s.parse().ok()).unwrap_or(1e9);

    let t0 = Instant::now();
    let configs = sched_configs(&prop, tier);
    let total_configs = configs.len();
    let mut stats = ExploreStats::default();
    let mut per_family: BTreeMap<String, (usize, usize, usize)> = BTreeMap::new();
    let mut violations: Vec<serde_json::Value> = Vec::new();
    let mut other_props: BTreeMap<String, usize> = BTreeMap::new();
    let mut samples: Vec<serde_json::Value> = Vec::new();
    let mut configs_done = 0usize;
    let mut configs_capped = 0usize;
    let mut configs_skipped_budget = 0usize;
    let mut max_bound_full: BTreeMap<String, usize> = BTreeMap::new();
    let mut noprogress_polls = 0usize;
    let mut class_counts: BTreeMap<String, usize> = BTreeMap::new();

    let debug_cfg = std::env::var("VERIF_DEBUG_CFG").ok();
    for (n, (fam, idx, cfg)) in configs.iter().enumerate() {
        if (n + seed) % sn != si {
            continue;
        }
        if let Some(d) = &debug_cfg {
            // debugging aid: run only the named configurations and print their executions
            if !cfg.name.contains(d.as_str()) {
                continue;
            }
            let mut st = ExploreStats::default();
            exec::explore(cfg, &exec::stream_subject, 50, &mut st, &mut |tr| {
                println!("--- {} schedule {:?}", cfg.name, tr.schedule());
                for l in tr.render() {
                    println!("  {l}");
                }
                println!("  quiescent_at {:?}", tr.quiescent_at);
                for v in oracles::check_all(cfg, tr) {
                    println!("  VIOL {} [{}] {}", v.prop, v.key, v.msg);
                }
                true
            });
            continue;
        }
        if t0.elapsed().as_secs_f64() > budget_s {
            configs_skipped_budget += 1;
            continue;
        }
        if let Some(hb) = &hb_path {
            let _ = std::fs::write(hb, format!("{fam} {idx}\n{}", cfg.name));
        }
        let before = (stats.execs, stats.capped);
        stats.capped = false;
        let mut found_here = 0usize;
        exec::explore(cfg, &exec::stream_subject, cfg.max_execs, &mut stats, &mut |tr| {
            noprogress_polls += tr.noprogress_polls;
            let vs = oracles::check_all(cfg, tr);
            for v in vs {
                if v.prop == prop {
                    let class = format!("{}|{:?}", v.key, findings::explain(cfg, tr, &v));
                    let seen = class_counts.entry(class).or_insert(0usize);
                    if found_here < 1 && *seen < 6 {
                        *seen += 1;
                        // determinism: replay the failing schedule twice more
                        let sched = tr.schedule();
                        // the same schedule must fail the same way every time (the trace itself may
                        // legitimately differ where the runner iterates a `HashMap`)
                        let t2 = exec::execute(cfg, &exec::stream_subject, &sched);
                        let t3 = exec::execute(cfg, &exec::stream_subject, &sched);
                        let again = |t: &exec::Trace| {
                            oracles::check_all(cfg, t).iter().any(|w| w.prop == v.prop && w.key == v.key)
                        };
                        let stable = again(&t2) && again(&t3);
                        let finding = findings::explain(cfg, tr, &v);
                        violations.push(json!({
                            "property": prop,
                            "family": fam,
                            "index": idx,
                            "tier": tier_s,
                            "config": cfg.describe(),
                            "schedule": sched,
                            "decisions": tr.decisions.iter().map(|d| format!("{:?}", d.what)).collect::<Vec<_>>(),
                            "key": v.key,
                            "message": v.msg,
                            "finding": finding,
                            "deterministic": stable,
                            "trace": tr.render(),
                            "anomalies": tr.anomalies.iter().map(|a| format!("{a:?}")).collect::<Vec<_>>(),
                        }));
                    }
                    found_here += 1;
                } else {
                    *other_props.entry(v.prop.to_owned()).or_default() += 1;
                }
            }
            if samples.len() < 3 && tr.decisions.len() >= 2 {
                samples.push(json!({
                    "config": cfg.name,
                    "schedule": tr.schedule(),
                    "decisions": tr.decisions.iter().map(|d| format!("{:?}", d.what)).collect::<Vec<_>>(),
                    "events": tr.events.iter().map(|e| e.ev.short()).collect::<Vec<_>>(),
                }));
            }
            found_here == 0
        });
        configs_done += 1;
        let e = per_family.entry(fam.clone()).or_default();
        e.0 += 1;
        e.1 += stats.execs - before.0;
        if stats.capped {
            configs_capped += 1;
            e.2 += 1;
        } else if let Some(b) = cfg.bound.filter(|b| *b > 0) {
            // (bound 0 marks the single-schedule observations of the default / unlimited limit)
            let m = max_bound_full.entry(fam.clone()).or_insert(usize::MAX);
            *m = (*m).min(b);
        }
        stats.capped = before.1 || stats.capped;
    }

    // C10 "an error in a step": errors of macro-registered steps, end to end
    let mut extras = 0usize;
    if prop == "C10" && si == 0 {
        for round in 0..2 {
            let vs = vcore::zoo::c10_macro_errors();
            extras += 1;
            if round == 0 {
                for (key, msg) in vs {
                    violations.push(json!({
                        "property": prop, "family": "macro-errors", "index": 0, "tier": tier_s,
                        "extra": "c10-macro-errors", "schedule": [], "key": key, "message": msg,
                        "finding": serde_json::Value::Null, "deterministic": true,
                    }));
                }
            }
        }
    }
    // C02, "a step with no matching definition is Skipped" and nothing else is: definitions
    // registered one by one through `runner::Basic::given / when / then` (also on clones) sit
    // under the keyword they were registered for
    if prop == "C02" && si == 2 % sn {
        for (key, msg) in vcore::zoo::c17_runner_registration() {
            violations.push(json!({
                "property": prop, "family": "runner-registration", "index": 0, "tier": tier_s,
                "extra": "runner-registration", "schedule": [], "key": key, "message": msg,
                "finding": serde_json::Value::Null, "deterministic": true,
            }));
        }
        extras += 4;
    }
    // options given through `Cucumber::with_cli()` survive the Cucumber-level builder methods
    if si == 1 % sn {
        for (p, key, msg) in vcore::order::run_children() {
            extras += 1;
            if p == prop {
                violations.push(json!({
                    "property": prop, "family": "cucumber-order", "index": 0, "tier": tier_s,
                    "extra": "cucumber-order", "schedule": [], "key": key, "message": msg,
                    "finding": serde_json::Value::Null, "deterministic": true,
                }));
            }
        }
        extras += vcore::order::METHODS.len();
    }
    stats.execs += extras;

    let res = json!({
        "property": prop,
        "tier": tier_s,
        "shard": shard,
        "total_configs": total_configs,
        "configs_done": configs_done,
        "configs_capped": configs_capped,
        "configs_skipped_budget": configs_skipped_budget,
        "execs": stats.execs,
        "transitions": stats.transitions,
        "states": stats.states.len(),
        "distinct_outcomes": stats.outcomes.len(),
        "max_decisions": stats.max_decisions,
        "divergences": stats.divergences,
        "noprogress_polls": noprogress_polls,
        "per_family": per_family.iter().map(|(k, v)| (k.clone(), json!({"configs": v.0, "execs": v.1, "capped": v.2}))).collect::<BTreeMap<_, _>>(),
        "deviation_bound_completed": max_bound_full,
        "violations": violations,
        "other_property_violations_seen": other_props,
        "samples": samples,
        "wall_s": t0.elapsed().as_secs_f64(),
    });
    std::fs::write(&out_path, serde_json::to_string_pretty(&res).unwrap()).unwrap();
    0
}

fn run_pipe(args: &[String]) -> i32 {
    use vcore::pipe;
    let prop = arg(args, "--prop").expect("--prop");
    let tier_s = arg(args, "--tier").unwrap_or_else(|| "quick".into());
    let tier = tier_of(&tier_s);
    let shard = arg(args, "--shard").unwrap_or_else(|| "0/1".into());
    let (si, sn) = shard.split_once('/').unwrap();
    let (si, sn): (usize, usize) = (si.parse().unwrap(), sn.parse().unwrap());
    let seed: usize = arg(args, "--seed").and_then(|s| s.parse().ok()).unwrap_or(0);
    let out_path = arg(args, "--out").expect("--out");
    let hb_path = arg(args, "--heartbeat");
    let budget_s: f64 = arg(args, "--budget").and_then(|s| s.parse().ok()).unwrap_or(1e9);
    let t0 = Instant::now();
    let configs = families::family("verdict", tier);
    let stacks = pipe::Stack::all();
    let total_configs = configs.len();
    let mut stats = ExploreStats::default();
    let mut violations: Vec<serde_json::Value> = Vec::new();
    let mut samples: Vec<serde_json::Value> = Vec::new();
    let (mut done, mut skipped, mut capped) = (0usize, 0usize, 0usize);
    let mut verdicts = [0usize; 2];
    let mut class_counts: BTreeMap<String, usize> = BTreeMap::new();
    for (idx, cfg) in configs.iter().enumerate() {
        if (idx + seed) % sn != si {
            continue;
        }
        if t0.elapsed().as_secs_f64() > budget_s {
            skipped += 1;
            continue;
        }
        if let Some(hb) = &hb_path {
            let _ = std::fs::write(hb, format!("verdict {idx}\n{}", cfg.name));
        }
        for (sidx, stack) in stacks.iter().enumerate() {
            let make = |c: &Config| pipe::subject(c, *stack);
            let mut found_here = 0usize;
            let was_capped = stats.capped;
            stats.capped = false;
            exec::explore(cfg, &make, cfg.max_execs, &mut stats, &mut |tr| {
                let res = pipe::take_result();
                if let Some(f) = res.failed {
                    verdicts[usize::from(f)] += 1;
                }
                for v in pipe::check(cfg, *stack, tr, &res) {
                    let finding_now = findings::explain_pipe(cfg, tr, &v, *stack);
                    let class = format!("{}|{:?}", v.key, finding_now);
                    let seen = class_counts.entry(class).or_insert(0usize);
                    if found_here < 1 && *seen < 6 {
                        *seen += 1;
                        let sched = tr.schedule();
                        let t2 = exec::execute(cfg, &make, &sched);
                        let r2 = pipe::take_result();
                        let stable = t2.outcome_hash() == tr.outcome_hash() && r2.failed == res.failed;
                        let finding = findings::explain_pipe(cfg, tr, &v, *stack);
                        violations.push(json!({
                            "engine": "pipe",
                            "property": prop,
                            "family": "verdict",
                            "index": idx,
                            "stack_index": sidx,
                            "stack": format!("{stack:?}"),
                            "tier": tier_s,
                            "config": cfg.describe(),
                            "schedule": sched,
                            "key": v.key,
                            "message": v.msg,
                            "finding": finding,
                            "deterministic": stable,
                            "trace": tr.render(),
                            "counters": format!("{:?}", res.counters),
                            "basic_out": res.basic_out,
                            "libtest_out": res.libtest_out,
                        }));
                    }
                    found_here += 1;
                }
                if samples.len() < 3 && tr.decisions.len() >= 2 {
                    samples.push(json!({
                        "config": cfg.name,
                        "stack": format!("{stack:?}"),
                        "schedule": tr.schedule(),
                        "reported_failed": res.failed,
                        "events": tr.events.iter().map(|e| e.ev.short()).collect::<Vec<_>>(),
                    }));
                }
                true
            });
            if stats.capped {
                capped += 1;
            }
            stats.capped |= was_capped;
        }
        done += 1;
    }
    let res = json!({
        "property": prop, "tier": tier_s, "shard": shard,
        "total_configs": total_configs, "configs_done": done, "configs_capped": capped,
        "configs_skipped_budget": skipped,
        "execs": stats.execs, "transitions": stats.transitions, "states": stats.states.len(),
        "distinct_outcomes": stats.outcomes.len(), "max_decisions": stats.max_decisions,
        "divergences": stats.divergences,
        "details": {"writer_stacks": stacks.len(), "verdict_ok": verdicts[0], "verdict_failed": verdicts[1]},
        "violations": violations, "samples": samples, "wall_s": t0.elapsed().as_secs_f64(),
    });
    std::fs::write(&out_path, serde_json::to_string_pretty(&res).unwrap()).unwrap();
    0
}

#[cfg(feature = "tracing")]
fn run_trace(args: &[String]) -> i32 {
    use vcore::trace;
    let prop = arg(args, "--prop").expect("--prop");
    let tier_s = arg(args, "--tier").unwrap_or_else(|| "quick".into());
    let tier = tier_of(&tier_s);
    let shard = arg(args, "--shard").unwrap_or_else(|| "0/1".into());
    let (si, sn) = shard.split_once('/').unwrap();
    let (si, sn): (usize, usize) = (si.parse().unwrap(), sn.parse().unwrap());
    let seed: usize = arg(args, "--seed").and_then(|s| s.parse().ok()).unwrap_or(0);
    let out_path = arg(args, "--out").expect("--out");
    let hb_path = arg(args, "--heartbeat");
    let budget_s: f64 = arg(args, "--budget").and_then(|s| s.parse().ok()).unwrap_or(1e9);
    let t0 = Instant::now();
    let configs = trace::family(tier);
    let mut stats = ExploreStats::default();
    let mut violations: Vec<serde_json::Value> = Vec::new();
    let mut samples: Vec<serde_json::Value> = Vec::new();
    let (mut done, mut skipped, mut capped) = (0usize, 0usize, 0usize);
    let mut logs_checked = 0usize;
    let mut noprogress_polls = 0usize;
    let mut class_counts: BTreeMap<String, usize> = BTreeMap::new();
    for (idx, cfg) in configs.iter().enumerate() {
        if (idx + seed) % sn != si {
            continue;
        }
        if t0.elapsed().as_secs_f64() > budget_s {
            skipped += 1;
            continue;
        }
        if let Some(hb) = &hb_path {
            let _ = std::fs::write(hb, format!("trace {idx}\n{}", cfg.name));
        }
        let was = stats.capped;
        stats.capped = false;
        let mut found: Vec<String> = Vec::new();
        exec::explore(cfg, &trace::subject, cfg.max_execs, &mut stats, &mut |tr| {
            noprogress_polls += tr.noprogress_polls;
            logs_checked += tr.log.iter().filter(|l| matches!(l.kind, vcore::hs::LogKind::Emit { .. })).count();
            let mut vs = trace::check(cfg, tr);
            // the scheduler oracles must hold as well (Log events are ignored by them)
            vs.extend(oracles::check_all(cfg, tr).into_iter().filter(|v| v.prop == "C04" || v.prop == "C10"));
            for v in vs {
                if v.prop != "C20" && v.prop != "C04" && v.prop != "C10" {
                    continue;
                }
                let class = format!("{}|{:?}", v.key, trace::explain(&v));
                let seen = class_counts.entry(class).or_insert(0usize);
                if !found.contains(&v.key) && *seen < 6 {
                    *seen += 1;
                    found.push(v.key.clone());
                    let sched = tr.schedule();
                    let t2 = exec::execute(cfg, &trace::subject, &sched);
                    // the runner's tracing collector iterates a `HashMap` (harmless reordering of
                    // simultaneous span closes): the same schedule must fail the same way again
                    let stable = trace::check(cfg, &t2).iter().any(|w| w.key == v.key)
                        || oracles::check_all(cfg, &t2).iter().any(|w| w.key == v.key);
                    violations.push(json!({
                        "engine": "trace", "property": prop, "family": "trace", "index": idx, "tier": tier_s,
                        "config": cfg.describe(), "schedule": sched,
                        "key": v.key, "message": format!("[{}] {}", v.prop, v.msg),
                        "finding": trace::explain(&v), "deterministic": stable,
                        "trace": tr.render(),
                    }));
                }
            }
            if samples.len() < 2 && tr.decisions.len() >= 2 && cfg.plan.logs_before + cfg.plan.logs_after >= 2 {
                samples.push(json!({
                    "config": cfg.name, "schedule": tr.schedule(),
                    "events": tr.events.iter().map(|e| e.ev.short()).collect::<Vec<_>>(),
                }));
            }
            true
        });
        if stats.capped {
            capped += 1;
        }
        stats.capped |= was;
        done += 1;
    }
    let res = json!({
        "property": prop, "tier": tier_s, "shard": shard,
        "total_configs": configs.len(), "configs_done": done, "configs_capped": capped,
        "configs_skipped_budget": skipped,
        "execs": stats.execs, "transitions": stats.transitions, "states": stats.states.len(),
        "distinct_outcomes": stats.outcomes.len(), "max_decisions": stats.max_decisions,
        "divergences": stats.divergences,
        "details": {"log_events_checked": logs_checked, "noprogress_polls": noprogress_polls, "quiescence_rule": "16 consecutive polls without a new event, gate change or user-code call"},
        "violations": violations, "samples": samples, "wall_s": t0.elapsed().as_secs_f64(),
    });
    std::fs::write(&out_path, serde_json::to_string_pretty(&res).unwrap()).unwrap();
    0
}

fn run_replay(args: &[String]) -> i32 {
    let file = arg(args, "--file").expect("--file");
    let text = std::fs::read_to_string(&file).expect("read replay");
    let j: serde_json::Value = serde_json::from_str(&text).expect("json");
    let engine = j["engine"].as_str().unwrap_or("sched");
    if engine == "pipe" {
        use vcore::pipe;
        let idx = j["index"].as_u64().unwrap() as usize;
        let sidx = j["stack_index"].as_u64().unwrap() as usize;
        let tier = tier_of(j["tier"].as_str().unwrap_or("quick"));
        let sched: Vec<usize> =
            j["schedule"].as_array().unwrap().iter().map(|x| x.as_u64().unwrap() as usize).collect();
        let cfgs = families::family("verdict", tier);
        let cfg = &cfgs[idx];
        let stack = pipe::Stack::all()[sidx];
        println!("{}stack: {stack:?}", cfg.describe());
        let tr = exec::execute(cfg, &|c: &Config| pipe::subject(c, stack), &sched);
        let res = pipe::take_result();
        for l in tr.render() {
            println!("  {l}");
        }
        println!("reported failed: {:?} counters {:?}\n--- basic\n{}--- libtest\n{}", res.failed, res.counters, res.basic_out, res.libtest_out);
        let vs = pipe::check(cfg, stack, &tr, &res);
        for v in &vs {
            println!("violation {} [{}]: {}", v.prop, v.key, v.msg);
        }
        return i32::from(!vs.is_empty());
    }
    #[cfg(feature = "tracing")]
    if engine == "trace" {
        use vcore::trace;
        let idx = j["index"].as_u64().unwrap() as usize;
        let tier = tier_of(j["tier"].as_str().unwrap_or("quick"));
        let sched: Vec<usize> =
            j["schedule"].as_array().unwrap().iter().map(|x| x.as_u64().unwrap() as usize).collect();
        let cfgs = trace::family(tier);
        let cfg = &cfgs[idx];
        println!("{}", cfg.describe());
        let tr = exec::execute(cfg, &trace::subject, &sched);
        for l in tr.render() {
            println!("  {l}");
        }
        let vs = trace::check(cfg, &tr);
        for v in &vs {
            println!("violation {} [{}]: {}", v.prop, v.key, v.msg);
        }
        return i32::from(!vs.is_empty());
    }
    if engine != "sched" {
        return vcore::hist::replay(&j);
    }
    if j["extra"].as_str() == Some("cucumber-order") {
        let vs = vcore::order::run_children();
        for (p, k, m) in &vs {
            println!("violation {p} [{k}]: {m}");
        }
        return i32::from(!vs.is_empty());
    }
    if j["extra"].as_str() == Some("runner-registration") {
        let vs = vcore::zoo::c17_runner_registration();
        for (k, m) in &vs {
            println!("violation C02 [{k}]: {m}");
        }
        return i32::from(!vs.is_empty());
    }
    if j["extra"].as_str() == Some("c10-macro-errors") {
        let vs = vcore::zoo::c10_macro_errors();
        for (k, m) in &vs {
            println!("violation C10 [{k}]: {m}");
        }
        return i32::from(!vs.is_empty());
    }
    let prop = j["property"].as_str().unwrap().to_owned();
    let fam = j["family"].as_str().unwrap();
    let idx = j["index"].as_u64().unwrap() as usize;
    let tier = tier_of(j["tier"].as_str().unwrap_or("quick"));
    let sched: Vec<usize> =
        j["schedule"].as_array().unwrap().iter().map(|x| x.as_u64().unwrap() as usize).collect();
    let cfgs = families::family(fam, tier);
    let cfg = &cfgs[idx];
    println!("{}", cfg.describe());
    let tr = exec::execute(cfg, &exec::stream_subject, &sched);
    for l in tr.render() {
        println!("  {l}");
    }
    println!("anomalies: {:?}", tr.anomalies);
    let vs = oracles::check_all(cfg, &tr);
    let mut hit = false;
    for v in &vs {
        println!("violation {} [{}]: {}", v.prop, v.key, v.msg);
        if v.prop == prop {
            hit = true;
        }
    }
    if hit {
        println!("REPLAY: property {prop} violated again");
        1
    } else {
        println!("REPLAY: property {prop} holds on this schedule");
        0
    }
}

fn main() {
    if let Ok(spec) = std::env::var("VERIF_ORDER_CHILD") {
        std::panic::set_hook(Box::new(|_| {}));
        std::process::exit(vcore::order::child(&spec));
    }
    if let Ok(spec) = std::env::var("VERIF_C15_ORDER") {
        std::process::exit(vcore::h_filter::order_child(&spec));
    }
    let args: Vec<String> = std::env::args().collect();
    let code = match args.get(1).map(String::as_str) {
        Some("sched") => run_sched(&args),
        Some("pipe") => run_pipe(&args),
        #[cfg(feature = "tracing")]
        Some("trace") => run_trace(&args),
        Some("hist") => vcore::hist::run(&args),
        Some("replay") => run_replay(&args),
        Some("count") => {
            let prop = arg(&args, "--prop").unwrap();
            let tier = tier_of(&arg(&args, "--tier").unwrap_or_default());
            println!("{}", sched_configs(&prop, tier).len());
            0
        }
        _ => {
            eprintln!("usage: verif sched|hist|replay|count …");
            2
        }
    };
    std::process::exit(code);
}
