//! C19: a zoo of functions annotated with `#[given]` / `#[when]` / `#[then]`,
//! checked against hand-written reference matchers on every short step text.

use std::{cell::RefCell, panic::AssertUnwindSafe, str::FromStr};

use cucumber::{
    codegen::{StepConstructor as _, WorldInventory},
    gherkin::Step,
    given, then, when, Parameter, World,
};
use futures::FutureExt as _;
use gherkin::StepType;
use serde_json::json;

use crate::hist::ShardArgs;

thread_local! {
    static CALLS: RefCell<Vec<String>> = const { RefCell::new(Vec::new()) };
}

fn rec(s: String) {
    CALLS.with(|c| c.borrow_mut().push(s));
}

#[derive(Debug, Default, World)]
pub struct ZooA;

#[derive(Debug, World)]
#[world(init = Self::new)]
pub struct ZooB(u8);

impl ZooB {
    fn new() -> Self {
        ZooB(7)
    }
}

#[derive(Debug, Parameter, PartialEq, Eq)]
#[param(regex = "red|green|blue", name = "color")]
pub enum Color {
    Red,
    Green,
    Blue,
}

impl FromStr for Color {
    type Err = String;
    fn from_str(s: &str) -> Result<Self, String> {
        match s {
            "red" => Ok(Color::Red),
            "green" => Ok(Color::Green),
            "blue" => Ok(Color::Blue),
            o => Err(format!("no color {o}")),
        }
    }
}

/// Parameter with several capturing groups: the first non-empty one is passed.
#[derive(Debug, Parameter)]
#[param(regex = r"(\d+)km|(\d+)mi", name = "dist")]
pub struct Dist(String);

impl FromStr for Dist {
    type Err = String;
    fn from_str(s: &str) -> Result<Self, String> {
        Ok(Dist(s.to_owned()))
    }
}

/// Parameter with three capturing groups, followed by another argument.
#[derive(Debug, Parameter)]
#[param(regex = r"(\d+)s|(\d+)m|(\d+)h", name = "dur3")]
pub struct Dur3(String);

impl FromStr for Dur3 {
    type Err = String;
    fn from_str(s: &str) -> Result<Self, String> {
        Ok(Dur3(s.to_owned()))
    }
}

#[derive(Debug)]
pub struct MyErr(&'static str);
impl std::fmt::Display for MyErr {
    fn fmt(&self, f: &mut std::fmt::Formatter<'_>) -> std::fmt::Result {
        write!(f, "my error {}", self.0)
    }
}

// ---- ZooA ----------------------------------------------------------------

#[given("a literal step")]
fn lit(_: &mut ZooA) {
    rec("lit()".into());
}

#[given("meta (x) .* a+ [b] ^$")]
fn lit_meta(_: &mut ZooA) {
    rec("lit_meta()".into());
}

#[when(regex = r"^regex (\d+) and (\w+)$")]
fn re_typed(_: &mut ZooA, n: u32, s: String) {
    rec(format!("re_typed({n},{s})"));
}

#[when(regex = r"^unanchored (\d+)")]
fn re_unanchored(_: &mut ZooA, n: i64) {
    rec(format!("re_unanchored({n})"));
}

#[then(regex = r"^slice (\d+) (\d+) ?(\d+)?$")]
fn re_slice(_: &mut ZooA, v: &[String]) {
    rec(format!("re_slice({})", v.join("|")));
}

#[given(regex = r"^stepctx (\w+)$")]
fn with_step(_: &mut ZooA, #[step] s: &Step, word: String) {
    rec(format!("with_step({},{word})", s.value));
}

/// Records the doc string and the table of the step it is handed.
#[given(regex = r"^ctxdoc (\w+)$")]
fn ctx_doc(_: &mut ZooA, word: String, step: &Step) {
    let rows = step.table.as_ref().map(|t| t.rows.clone()).unwrap_or_default();
    rec(format!("ctx_doc({word},{:?},{rows:?})", step.docstring.as_deref().map(str::trim)));
}

#[given(regex = r"^named ctx (\w+)$")]
fn with_step_named(_: &mut ZooA, word: String, step: &Step) {
    rec(format!("with_step_named({word},{})", step.value));
}

#[when(expr = "expr {int} and {word}")]
fn expr_int_word(_: &mut ZooA, n: i32, s: String) {
    rec(format!("expr_int_word({n},{s})"));
}

#[when(expr = "expr float {float}")]
fn expr_float(_: &mut ZooA, f: f64) {
    rec(format!("expr_float({f})"));
}

#[then(expr = "expr string {string}")]
fn expr_string(_: &mut ZooA, s: String) {
    rec(format!("expr_string({s})"));
}

#[then(expr = "optional(s) text/alt")]
fn expr_optional(_: &mut ZooA) {
    rec("expr_optional()".into());
}

#[given(expr = "custom {color}")]
fn custom_param(_: &mut ZooA, c: Color) {
    rec(format!("custom_param({c:?})"));
}

#[given(expr = "far {dist} away")]
fn custom_multi(_: &mut ZooA, d: Dist) {
    rec(format!("custom_multi({})", d.0));
}

/// One custom parameter twice in a row, then a different custom parameter.
#[when(expr = "mix {color} and {color} over {dist}")]
fn mix(_: &mut ZooA, a: Color, b: Color, d: Dist) {
    rec(format!("mix({a:?},{b:?},{})", d.0));
}

#[given(expr = "wait {dur3} then {word} {int}")]
fn custom_multi3(_: &mut ZooA, d: Dur3, w: String, n: i32) {
    rec(format!("custom_multi3({},{w},{n})", d.0));
}

#[when(regex = r"^async (\d+)$")]
async fn asy(_: &mut ZooA, n: u8) {
    futures::future::ready(()).await;
    rec(format!("asy({n})"));
}

#[then(regex = r"^result (ok|err)$")]
fn res(_: &mut ZooA, which: String) -> Result<(), String> {
    rec(format!("res({which})"));
    if which == "ok" {
        Ok(())
    } else {
        Err("returned err".into())
    }
}

/// A `Result` hidden behind a type alias.
pub type Fallible = Result<(), String>;

#[then(regex = r"^alias (ok|err)$")]
fn alias_res(_: &mut ZooA, which: String) -> Fallible {
    rec(format!("alias_res({which})"));
    if which == "ok" {
        Ok(())
    } else {
        Err("aliased err".into())
    }
}

#[then(regex = r"^io (ok|err)$")]
async fn io_res(_: &mut ZooA, which: String) -> std::io::Result<()> {
    rec(format!("io_res({which})"));
    if which == "ok" {
        Ok(())
    } else {
        Err(std::io::Error::other("io err"))
    }
}

#[then(expr = "async result {word}")]
async fn ares(_: &mut ZooA, s: String) -> Result<(), MyErr> {
    rec(format!("ares({s})"));
    if s == "ok" {
        Ok(())
    } else {
        Err(MyErr("x"))
    }
}

#[given(regex = r"^parse (\S+)$")]
fn parse_u8(_: &mut ZooA, n: u8) {
    rec(format!("parse_u8({n})"));
}

#[given("multi lit")]
#[when(regex = r"^multi (re)$")]
#[then(expr = "multi expr")]
fn multi(_: &mut ZooA) {
    rec("multi()".into());
}

#[given(regex = r"^(?P<named>\w+) named group$")]
fn named(_: &mut ZooA, s: String) {
    rec(format!("named({s})"));
}

/// Multi-byte characters before and between the captures.
#[when(regex = r"^café (\d+) crêpes for (\w+)é$")]
fn cafe(_: &mut ZooA, n: u32, who: String) {
    rec(format!("cafe({n},{who})"));
}

/// Two different functions under one keyword with the very same matcher text: both are
/// registered, so the step is ambiguous between the two.
#[then(regex = r"^twice (\d+)$")]
fn dup1(_: &mut ZooA, n: u8) {
    rec(format!("dup1({n})"));
}

#[then(regex = r"^twice (\d+)$")]
fn dup2(_: &mut ZooA, n: u8) {
    rec(format!("dup2({n})"));
}

#[given("same literal")]
fn dup_lit1(_: &mut ZooA) {
    rec("dup_lit1()".into());
}

#[given("same literal")]
fn dup_lit2(_: &mut ZooA) {
    rec("dup_lit2()".into());
}

/// Steps stamped out by one `macro_rules!` invocation: `line!()` / `column!()` resolve to
/// that invocation, so they all carry the same `Location` and are still distinct steps.
macro_rules! stamped {
    ($($name:ident => $text:literal),*) => {
        $(
            #[when($text)]
            fn $name(_: &mut ZooA) {
                rec(format!("{}()", stringify!($name)));
            }
        )*
    };
}
stamped!(stamped_a => "stamped a", stamped_b => "stamped b", stamped_c => "stamped c");

/// Named groups that share a snake_case prefix are still separate groups, passed in order.
#[when(regex = r"^user (?P<user_id>\d+) (?P<user_name>\w+) at (?P<pos_x>\d+),(?P<pos_y>\d+)$")]
fn prefixed(_: &mut ZooA, id: u32, name: String, x: u8, y: u8) {
    rec(format!("prefixed({id},{name},{x},{y})"));
}

/// The same as a slice.
#[then(regex = r"^users (?P<user_id>\d*) (?P<user_name>\w+)$")]
fn prefixed_slice(_: &mut ZooA, v: &[String]) {
    rec(format!("prefixed_slice({})", v.join("|")));
}

/// A top-level alternation: the anchors bind to the first / last branch only.
#[given(regex = r"^yes|no$")]
fn yes_no(_: &mut ZooA) {
    rec("yes_no()".into());
}

/// Captures are handed over as captured, surrounding whitespace included.
#[given(regex = r"^pad:(.*)$")]
fn pad(_: &mut ZooA, s: String) {
    rec(format!("pad[{s}]"));
}

/// A definition for the step without any text (an outline whose cell is empty yields one).
#[when(regex = r"^\s*$")]
fn blank(_: &mut ZooA) {
    rec("blank()".into());
}

#[when(regex = r"^padnum:(.*)$")]
fn padnum(_: &mut ZooA, n: u32) {
    rec(format!("padnum({n})"));
}

// ---- ZooB ----------------------------------------------------------------

#[given("a literal step")]
fn b_lit(w: &mut ZooB) {
    rec(format!("b_lit({})", w.0));
}

#[when(regex = r"^b (\d+)$")]
fn b_re(_: &mut ZooB, n: u16) {
    rec(format!("b_re({n})"));
}

// ------------------------------------------------------- reference matchers

#[derive(Clone, Debug, PartialEq, Eq)]
pub enum Expect {
    /// the function records exactly this and returns normally
    Call(String),
    /// the step future must fail (panic); if given, this was recorded first
    Fail(Option<String>),
}

fn digits(s: &str) -> bool {
    !s.is_empty() && s.bytes().all(|b| b.is_ascii_digit())
}
fn word_chars(s: &str) -> bool {
    !s.is_empty() && s.chars().all(|c| c.is_alphanumeric() || c == '_')
}
fn int(s: &str) -> bool {
    digits(s.strip_prefix('-').unwrap_or(s))
}
fn no_ws(s: &str) -> bool {
    !s.is_empty() && !s.chars().any(char::is_whitespace)
}
fn toks(s: &str) -> Vec<&str> {
    s.split(' ').collect()
}

pub struct Entry {
    pub world: u8,
    pub kw: StepType,
    pub name: &'static str,
    pub matcher: fn(&str) -> Option<Expect>,
}

fn fits<T: FromStr>(s: &str) -> bool {
    s.parse::<T>().is_ok()
}

pub fn entries() -> Vec<Entry> {
    use StepType::{Given, Then, When};
    let e = |world, kw, name, matcher| Entry { world, kw, name, matcher };
    vec![
        e(0, Given, "lit", |t| (t == "a literal step").then(|| Expect::Call("lit()".into()))),
        e(0, Given, "lit_meta", |t| {
            (t == "meta (x) .* a+ [b] ^$").then(|| Expect::Call("lit_meta()".into()))
        }),
        e(0, When, "re_typed", |t| {
            let v = toks(t);
            (v.len() == 4 && v[0] == "regex" && digits(v[1]) && v[2] == "and" && word_chars(v[3])).then(|| {
                if fits::<u32>(v[1]) {
                    Expect::Call(format!("re_typed({},{})", v[1].parse::<u32>().unwrap(), v[3]))
                } else {
                    Expect::Fail(None)
                }
            })
        }),
        e(0, When, "re_unanchored", |t| {
            let rest = t.strip_prefix("unanchored ")?;
            let d: String = rest.chars().take_while(char::is_ascii_digit).collect();
            (!d.is_empty()).then(|| {
                if fits::<i64>(&d) {
                    Expect::Call(format!("re_unanchored({})", d.parse::<i64>().unwrap()))
                } else {
                    Expect::Fail(None)
                }
            })
        }),
        e(0, Then, "re_slice", |t| {
            // ^slice (\d+) (\d+) ?(\d+)?$
            let rest = t.strip_prefix("slice ")?;
            let (a, rest) = rest.split_once(' ')?;
            if !digits(a) {
                return None;
            }
            // b is a maximal digit run that still lets the remainder match ` ?(\d+)?$`
            let bd: String = rest.chars().take_while(char::is_ascii_digit).collect();
            if bd.is_empty() {
                return None;
            }
            let tail = &rest[bd.len()..];
            let (b, c) = if tail.is_empty() {
                // `(\d+)` greedy takes all, optional group does not participate... unless
                // backtracking is needed: it is not, the greedy split already matches
                (bd.clone(), String::new())
            } else if let Some(c) = tail.strip_prefix(' ') {
                if c.is_empty() || digits(c) {
                    (bd.clone(), c.to_owned())
                } else {
                    return None;
                }
            } else {
                return None;
            };
            Some(Expect::Call(format!("re_slice({a}|{b}|{c})")))
        }),
        e(0, Given, "with_step", |t| {
            let w = t.strip_prefix("stepctx ")?;
            word_chars(w).then(|| Expect::Call(format!("with_step({t},{w})")))
        }),
        e(0, Given, "with_step_named", |t| {
            let w = t.strip_prefix("named ctx ")?;
            word_chars(w).then(|| Expect::Call(format!("with_step_named({w},{t})")))
        }),
        e(0, When, "expr_int_word", |t| {
            let v = toks(t);
            (v.len() == 4 && v[0] == "expr" && int(v[1]) && v[2] == "and" && no_ws(v[3])).then(|| {
                if fits::<i32>(v[1]) {
                    Expect::Call(format!("expr_int_word({},{})", v[1].parse::<i32>().unwrap(), v[3]))
                } else {
                    Expect::Fail(None)
                }
            })
        }),
        e(0, When, "expr_float", |t| {
            let f = t.strip_prefix("expr float ")?;
            // texts of the alphabet: [sign] digits [. digits]
            let body = f.strip_prefix('-').or_else(|| f.strip_prefix('+')).unwrap_or(f);
            let ok = match body.split_once('.') {
                None => digits(body),
                Some((a, b)) => (a.is_empty() || digits(a)) && digits(b),
            };
            ok.then(|| Expect::Call(format!("expr_float({})", f.parse::<f64>().unwrap())))
        }),
        e(0, Then, "expr_string", |t| {
            let s = t.strip_prefix("expr string ")?;
            for q in ['"', '\''] {
                if s.len() >= 2 && s.starts_with(q) && s.ends_with(q) {
                    let inner = &s[1..s.len() - 1];
                    if !inner.contains(q) {
                        return Some(Expect::Call(format!("expr_string({inner})")));
                    }
                }
            }
            None
        }),
        e(0, Then, "expr_optional", |t| {
            matches!(t, "optional text" | "optionals text" | "optional alt" | "optionals alt")
                .then(|| Expect::Call("expr_optional()".into()))
        }),
        e(0, Given, "custom_param", |t| {
            let c = t.strip_prefix("custom ")?;
            let v = match c {
                "red" => "Red",
                "green" => "Green",
                "blue" => "Blue",
                _ => return None,
            };
            Some(Expect::Call(format!("custom_param({v})")))
        }),
        e(0, Given, "custom_multi", |t| {
            let m = t.strip_prefix("far ")?.strip_suffix(" away")?;
            let n = m.strip_suffix("km").or_else(|| m.strip_suffix("mi"))?;
            digits(n).then(|| Expect::Call(format!("custom_multi({n})")))
        }),
        e(0, When, "mix", |t| {
            let v = toks(t);
            if v.len() != 6 || v[0] != "mix" || v[2] != "and" || v[4] != "over" {
                return None;
            }
            let col = |c: &str| match c {
                "red" => Some("Red"),
                "green" => Some("Green"),
                "blue" => Some("Blue"),
                _ => None,
            };
            let (a, b) = (col(v[1])?, col(v[3])?);
            let n = v[5].strip_suffix("km").or_else(|| v[5].strip_suffix("mi"))?;
            digits(n).then(|| Expect::Call(format!("mix({a},{b},{n})")))
        }),
        e(0, Given, "custom_multi3", |t| {
            let v = toks(t);
            if v.len() != 5 || v[0] != "wait" || v[2] != "then" || !no_ws(v[3]) || !int(v[4]) {
                return None;
            }
            let n = v[1].strip_suffix('s').or_else(|| v[1].strip_suffix('m')).or_else(|| v[1].strip_suffix('h'))?;
            if !digits(n) {
                return None;
            }
            Some(if fits::<i32>(v[4]) {
                Expect::Call(format!("custom_multi3({n},{},{})", v[3], v[4].parse::<i32>().unwrap()))
            } else {
                Expect::Fail(None)
            })
        }),
        e(0, When, "asy", |t| {
            let n = t.strip_prefix("async ")?;
            digits(n).then(|| {
                if fits::<u8>(n) {
                    Expect::Call(format!("asy({})", n.parse::<u8>().unwrap()))
                } else {
                    Expect::Fail(None)
                }
            })
        }),
        e(0, Then, "res", |t| match t {
            "result ok" => Some(Expect::Call("res(ok)".into())),
            "result err" => Some(Expect::Fail(Some("res(err)".into()))),
            _ => None,
        }),
        e(0, Then, "alias_res", |t| match t {
            "alias ok" => Some(Expect::Call("alias_res(ok)".into())),
            "alias err" => Some(Expect::Fail(Some("alias_res(err)".into()))),
            _ => None,
        }),
        e(0, Then, "io_res", |t| match t {
            "io ok" => Some(Expect::Call("io_res(ok)".into())),
            "io err" => Some(Expect::Fail(Some("io_res(err)".into()))),
            _ => None,
        }),
        e(0, Then, "ares", |t| {
            let w = t.strip_prefix("async result ")?;
            no_ws(w).then(|| {
                if w == "ok" {
                    Expect::Call("ares(ok)".into())
                } else {
                    Expect::Fail(Some(format!("ares({w})")))
                }
            })
        }),
        e(0, Given, "parse_u8", |t| {
            let n = t.strip_prefix("parse ")?;
            no_ws(n).then(|| {
                if fits::<u8>(n) {
                    Expect::Call(format!("parse_u8({})", n.parse::<u8>().unwrap()))
                } else {
                    Expect::Fail(None)
                }
            })
        }),
        e(0, Given, "multi", |t| (t == "multi lit").then(|| Expect::Call("multi()".into()))),
        e(0, When, "multi", |t| (t == "multi re").then(|| Expect::Call("multi()".into()))),
        e(0, Then, "multi", |t| (t == "multi expr").then(|| Expect::Call("multi()".into()))),
        e(0, Given, "named", |t| {
            let w = t.strip_suffix(" named group")?;
            word_chars(w).then(|| Expect::Call(format!("named({w})")))
        }),
        e(0, When, "cafe", |t| {
            let v = toks(t);
            (v.len() == 5 && v[0] == "café" && digits(v[1]) && v[2] == "crêpes" && v[3] == "for").then_some(())?;
            let who = v[4].strip_suffix('é')?;
            (!who.is_empty() && word_chars(who)).then(|| {
                if fits::<u32>(v[1]) {
                    Expect::Call(format!("cafe({},{who})", v[1].parse::<u32>().unwrap()))
                } else {
                    Expect::Fail(None)
                }
            })
        }),
        e(0, Then, "dup1", |t| {
            let n = t.strip_prefix("twice ")?;
            digits(n).then(|| Expect::Call(format!("dup1({n})")))
        }),
        e(0, Then, "dup2", |t| {
            let n = t.strip_prefix("twice ")?;
            digits(n).then(|| Expect::Call(format!("dup2({n})")))
        }),
        e(0, Given, "dup_lit1", |t| (t == "same literal").then(|| Expect::Call("dup_lit1()".into()))),
        e(0, Given, "dup_lit2", |t| (t == "same literal").then(|| Expect::Call("dup_lit2()".into()))),
        e(0, Given, "ctx_doc", |t| {
            let w = t.strip_prefix("ctxdoc ")?;
            word_chars(w).then(|| Expect::Call(format!("ctx_doc({w},None,[])")))
        }),
        e(0, When, "stamped_a", |t| (t == "stamped a").then(|| Expect::Call("stamped_a()".into()))),
        e(0, When, "stamped_b", |t| (t == "stamped b").then(|| Expect::Call("stamped_b()".into()))),
        e(0, When, "stamped_c", |t| (t == "stamped c").then(|| Expect::Call("stamped_c()".into()))),
        e(0, When, "prefixed", |t| {
            let v = toks(t);
            (v.len() == 5 && v[0] == "user" && digits(v[1]) && word_chars(v[2]) && v[3] == "at").then_some(())?;
            let (x, y) = v[4].split_once(',')?;
            (digits(x) && digits(y)).then(|| {
                if fits::<u32>(v[1]) && fits::<u8>(x) && fits::<u8>(y) {
                    Expect::Call(format!(
                        "prefixed({},{},{},{})",
                        v[1].parse::<u32>().unwrap(),
                        v[2],
                        x.parse::<u8>().unwrap(),
                        y.parse::<u8>().unwrap()
                    ))
                } else {
                    Expect::Fail(None)
                }
            })
        }),
        e(0, Then, "prefixed_slice", |t| {
            let rest = t.strip_prefix("users ")?;
            let (id, name) = rest.split_once(' ')?;
            ((id.is_empty() || digits(id)) && word_chars(name))
                .then(|| Expect::Call(format!("prefixed_slice({id}|{name})")))
        }),
        e(0, Given, "yes_no", |t| (t.starts_with("yes") || t.ends_with("no")).then(|| Expect::Call("yes_no()".into()))),
        e(0, Given, "pad", |t| t.strip_prefix("pad:").map(|s| Expect::Call(format!("pad[{s}]")))),
        e(0, When, "blank", |t| t.trim().is_empty().then(|| Expect::Call("blank()".into()))),
        e(0, When, "padnum", |t| {
            t.strip_prefix("padnum:").map(|s| {
                if fits::<u32>(s) {
                    Expect::Call(format!("padnum({})", s.parse::<u32>().unwrap()))
                } else {
                    Expect::Fail(None)
                }
            })
        }),
        e(1, Given, "b_lit", |t| (t == "a literal step").then(|| Expect::Call("b_lit(7)".into()))),
        e(1, When, "b_re", |t| {
            let n = t.strip_prefix("b ")?;
            digits(n).then(|| {
                if fits::<u16>(n) {
                    Expect::Call(format!("b_re({})", n.parse::<u16>().unwrap()))
                } else {
                    Expect::Fail(None)
                }
            })
        }),
    ]
}

// --------------------------------------------------------------------- texts

pub const TOKENS: [&str; 12] =
    ["a", "literal", "step", "regex", "12", "and", "foo", "expr", "-3", "multi", "300", "async"];

pub fn texts(max_tokens: usize) -> Vec<String> {
    let mut out: Vec<String> = vec![String::new()];
    let mut cur: Vec<String> = vec![String::new()];
    for _ in 0..max_tokens {
        let mut next = Vec::new();
        for p in &cur {
            for t in TOKENS {
                next.push(if p.is_empty() { t.to_owned() } else { format!("{p} {t}") });
            }
        }
        out.extend(next.iter().cloned());
        cur = next;
    }
    // positive texts and near misses of every entry
    for base in [
        "a literal step", "meta (x) .* a+ [b] ^$", "meta x .* a+ [b] ^$", "meta (x) yy a+ [b] ^$",
        "mix red and blue over 5km", "mix green and green over 12mi", "mix red and blue over red", "mix red and 5km over 5km",
        "regex 12 and foo", "regex 4294967296 and foo", "regex 12 and foo-bar", "regex 12 and é_1",
        "unanchored 5", "unanchored 5 trailing words", "unanchored 5x", "un unanchored 5", "unanchored x",
        "unanchored 99999999999999999999",
        "slice 1 2", "slice 1 2 3", "slice 1 23", "slice 1 2 ", "slice 1  2", "slice 1 2 x", "slice 1",
        "stepctx hello", "stepctx two words", "named ctx w1", "named ctx",
        "expr 12 and foo", "expr -3 and foo", "expr +3 and foo", "expr 12 and two words", "expr 2147483648 and z",
        "expr x and foo", "expr 12 and é!", "expr float 1.5", "expr float -2.25", "expr float 3", "expr float .5",
        "expr float x", "expr string \"hello world\"", "expr string 'single q'",
        "expr string \"\"", "expr string hello", "expr string \"mixed'", "expr string \"a\" b",
        "optional text", "optionals text", "optional alt", "optionals alt", "optional(s) text", "optional text/alt",
        "optional", "custom red", "custom green", "custom blue", "custom purple", "custom RED", "custom red ",
        "wait 5s then go 1", "wait 6m then go 2", "wait 7h then go 3", "wait 7d then go 3", "wait 5s then go x",
        "wait s then go 1", "wait 5s then  1",
        "far 5km away", "far 7mi away", "far 5 away", "far km away", "far 5kmi away",
        "async 7", "async 256", "async x", "result ok", "result err", "result maybe", "alias ok", "alias err", "alias maybe", "io ok", "io err",
        "async result ok", "async result no", "async result two words",
        "parse 12", "parse 300", "parse x", "parse -1", "multi lit", "multi re", "multi expr", "multi", "multi lit ",
        "user 7 bob at 3,4", "user 7 bob at 300,4", "user x bob at 3,4", "users 7 bob", "users  bob", "users 7",
        "yes", "no", "yes please", "I say no", "nope", "maybe",
        "pad:x", "pad: x ", "pad:", "padnum:5", "padnum: 5", "padnum:5 ", "padnum:x",
        "stamped a", "stamped b", "stamped c", "stamped d", "ctxdoc w1", "ctxdoc two words", "twice 2", "twice x", "same literal", "same  literal",
        "abc named group", "two words named group", "éa named group", "zoë named group",
        "café 12 crêpes for Chloé", "café 7 crêpes for é", "café 7 crêpes for Zoëé", "cafe 12 crêpes for Chloé",
        "café 99999999999 crêpes for Chloé", "b 12", "b 70000", "b x",
    ] {
        for t in [
            base.to_owned(),
            format!(" {base}"),
            format!("{base} "),
            format!("x{base}"),
            format!("{base}x"),
            base.to_uppercase(),
        ] {
            out.push(t);
        }
    }
    out.sort();
    out.dedup();
    out
}

fn step(ty: StepType, text: &str) -> Step {
    Step {
        keyword: match ty {
            StepType::Given => "Given ",
            StepType::When => "When ",
            StepType::Then => "Then ",
        }
        .to_owned(),
        ty,
        value: text.to_owned(),
        docstring: None,
        table: None,
        span: gherkin::Span { start: 0, end: 0 },
        position: gherkin::LineCol { line: 1, col: 1 },
    }
}

fn check_world<W: World + std::fmt::Debug + WorldInventory>(
    world_idx: u8,
    mk: fn() -> W,
    texts: &[String],
    entries: &[Entry],
    a: &ShardArgs,
    counters: &mut (usize, usize),
    violations: &mut Vec<serde_json::Value>,
    samples: &mut Vec<serde_json::Value>,
) {
    let coll = W::collection();
    // every other text is looked up in a clone of the collection (what a cloned runner or
    // `Cucumber` holds)
    let cloned = coll.clone();
    for (ti, text) in texts.iter().enumerate() {
        if !a.mine(ti) {
            continue;
        }
        for kw in [StepType::Given, StepType::When, StepType::Then] {
            counters.0 += 1;
            let want: Vec<(&Entry, Expect)> = entries
                .iter()
                .filter(|e| e.world == world_idx && e.kw == kw)
                .filter_map(|e| (e.matcher)(text).map(|x| (e, x)))
                .collect();
            let st = step(kw, text);
            let got = if ti % 2 == 1 { cloned.find(&st) } else { coll.find(&st) };
            let mut bad: Option<String> = None;
            match (want.len(), got) {
                (0, Ok(None)) => {}
                (1, Ok(Some((f, _, loc, ctx)))) => {
                    counters.1 += 1;
                    CALLS.with(|c| c.borrow_mut().clear());
                    let mut w = mk();
                    let res = AssertUnwindSafe(f(&mut w, ctx)).catch_unwind().now_or_never();
                    let calls = CALLS.with(|c| c.borrow().clone());
                    let (entry, exp) = &want[0];
                    if loc.is_none_or(|l| !l.path.ends_with("zoo.rs")) {
                        bad = Some(format!("matched definition has location {loc:?}"));
                    }
                    match (exp, res) {
                        (_, None) => bad = Some("step future suspended".into()),
                        (Expect::Call(c), Some(Ok(()))) => {
                            if calls != vec![c.clone()] {
                                bad = Some(format!("{} recorded {calls:?}, expected [{c}]", entry.name));
                            }
                        }
                        (Expect::Call(c), Some(Err(_))) => {
                            bad = Some(format!("{}: step failed, expected a normal call {c}", entry.name));
                        }
                        (Expect::Fail(pre), Some(Err(_))) => {
                            let want_calls: Vec<String> = pre.iter().cloned().collect();
                            if calls != want_calls {
                                bad = Some(format!("{} recorded {calls:?} before failing, expected {want_calls:?}", entry.name));
                            }
                        }
                        (Expect::Fail(_), Some(Ok(()))) => {
                            bad = Some(format!(
                                "{}: parse failure / returned Err was ignored, the step passed (recorded {calls:?})",
                                entry.name
                            ));
                        }
                    }
                    if samples.len() < 4 && ti % 37 == 0 {
                        samples.push(json!({"world": world_idx, "keyword": format!("{kw:?}"), "text": text,
                            "entry": entry.name, "recorded": calls}));
                    }
                }
                (n, Err(e)) if n >= 2 => {
                    if e.possible_matches.len() != n {
                        bad = Some(format!("{n} zoo entries match, ambiguity lists {}", e.possible_matches.len()));
                    }
                }
                (n, got) => {
                    let g = match got {
                        Ok(None) => "no definition".to_owned(),
                        Ok(Some((_, _, loc, _))) => format!("one definition at {loc:?}"),
                        Err(e) => format!("ambiguity of {}", e.possible_matches.len()),
                    };
                    bad = Some(format!(
                        "reference says {n} entries match ({:?}), collection found {g}",
                        want.iter().map(|(e, _)| e.name).collect::<Vec<_>>()
                    ));
                }
            }
            if let Some(msg) = bad {
                if violations.len() < 30 {
                    violations.push(json!({
                        "engine": "hist", "property": "C19", "tier": a.tier, "key": "dispatch",
                        "world": world_idx, "keyword": format!("{kw:?}"), "text": text,
                        "message": format!("world {world_idx} {kw:?} {text:?}: {msg}"),
                    }));
                }
            }
        }
    }
}

/// Registration: every attribute registered exactly once, under its keyword, for its World.
fn check_registration(violations: &mut Vec<serde_json::Value>, tier: &str) -> usize {
    fn count<W: WorldInventory>() -> (usize, usize, usize) {
        (
            inventory::iter::<W::Given>.into_iter().map(|g| g.inner()).count(),
            inventory::iter::<W::When>.into_iter().map(|g| g.inner()).count(),
            inventory::iter::<W::Then>.into_iter().map(|g| g.inner()).count(),
        )
    }
    let es = entries();
    let mut n = 0;
    for (w, got) in [(0u8, count::<ZooA>()), (1u8, count::<ZooB>())] {
        let want = (
            es.iter().filter(|e| e.world == w && e.kw == StepType::Given).count(),
            es.iter().filter(|e| e.world == w && e.kw == StepType::When).count(),
            es.iter().filter(|e| e.world == w && e.kw == StepType::Then).count(),
        );
        n += 3;
        if got != want {
            violations.push(json!({
                "engine": "hist", "property": "C19", "tier": tier, "key": "registration",
                "world": w, "keyword": "", "text": "",
                "message": format!("world {w}: registered (given, when, then) = {got:?}, attributes written = {want:?}"),
            }));
        }
    }
    n
}

pub fn run(a: &ShardArgs) -> serde_json::Value {
    let txts = texts(if a.thorough { 5 } else { 3 });
    let es = entries();
    let mut counters = (0usize, 0usize);
    let mut violations = Vec::new();
    let mut samples = Vec::new();
    let reg = if a.si == 0 { check_registration(&mut violations, &a.tier) } else { 0 };
    // the process panic hook would print every expected failure
    std::panic::set_hook(Box::new(|_| {}));
    check_world::<ZooA>(0, ZooA::default, &txts, &es, a, &mut counters, &mut violations, &mut samples);
    check_world::<ZooB>(1, ZooB::new, &txts, &es, a, &mut counters, &mut violations, &mut samples);
    if a.si == 0 {
        counters.0 += 1;
        for msg in c19_step_context() {
            violations.push(json!({
                "engine": "hist", "property": "C19", "tier": a.tier, "key": "step-context",
                "step_context": true, "message": msg,
            }));
        }
    }
    json!({
        "property": "C19", "tier": a.tier,
        "total_configs": txts.len() * 6, "configs_done": counters.0, "configs_skipped_budget": 0,
        "evaluations": counters.0 + reg, "distinct_nontrivial": counters.1,
        "rule": format!("a zoo of {} attribute instances on 38 functions for 2 Worlds (sync/async, unit/Result, typed args, slice, #[step] / `step` argument, literal / regex = / expr =, custom Parameter with one and several groups, several attributes on one fn, named group) x every text of <= {} tokens over a 12-token alphabet plus positive / near-miss texts of every entry (prefix, suffix, padding, case) x 3 keywords; non-trivial = lookups that dispatch to a function", es.len(), if a.thorough {5} else {3}),
        "exhaustive": true,
        "violations": violations, "samples": samples,
    })
}

pub fn replay(j: &serde_json::Value) -> i32 {
    if j["step_context"].as_bool() == Some(true) {
        let v = c19_step_context();
        for m in &v {
            println!("violation C19 [step-context]: {m}");
        }
        return i32::from(!v.is_empty());
    }
    let a = ShardArgs {
        prop: "C19".into(),
        tier: "quick".into(),
        thorough: false,
        si: 0,
        sn: 1,
        seed: 0,
        out: String::new(),
        heartbeat: None,
        budget_s: 1e9,
        t0: std::time::Instant::now(),
    };
    let es = entries();
    let mut counters = (0, 0);
    let mut violations = Vec::new();
    let mut samples = Vec::new();
    if j["key"] == "registration" {
        check_registration(&mut violations, "quick");
    } else {
        let txts = vec![j["text"].as_str().unwrap_or("").to_owned()];
        std::panic::set_hook(Box::new(|_| {}));
        check_world::<ZooA>(0, ZooA::default, &txts, &es, &a, &mut counters, &mut violations, &mut samples);
        check_world::<ZooB>(1, ZooB::new, &txts, &es, &a, &mut counters, &mut violations, &mut samples);
    }
    for v in &violations {
        println!("violation C19: {}", v["message"]);
    }
    i32::from(!violations.is_empty())
}

// ------------------------------------- C19: the step handed to a `#[step]` argument

/// Through the real runner: every executed step hands *its own* `gherkin::Step` (doc
/// string, table) to a `step` argument, also when other steps look the same by text and
/// position (another feature with the same layout, rows of an outline whose placeholders
/// sit in the doc string / table only).
pub fn c19_step_context() -> Vec<String> {
    let feat = |name: &str, doc: &str| -> gherkin::Feature {
        let text = format!(
            "Feature: {name}\n  Scenario: s\n    Given ctxdoc same\n      \"\"\"\n      {doc}\n      \"\"\"\n"
        );
        gherkin::Feature::parse(&text, gherkin::GherkinEnv::default()).expect("ctx feature")
    };
    let outline = {
        use cucumber::feature::Ext as _;
        let text = "Feature: O\n  Scenario Outline: o\n    Given ctxdoc row\n      | k | <v> |\n    Examples:\n      | v |\n      | r1 |\n      | r2 |\n";
        gherkin::Feature::parse(text, gherkin::GherkinEnv::default())
            .expect("outline")
            .expand_examples()
            .expect("expansion")
    };
    CALLS.with(|c| c.borrow_mut().clear());
    let runner = cucumber::runner::Basic::<ZooA>::default()
        .max_concurrent_scenarios(Some(1))
        .steps(ZooA::collection());
    let prev = std::panic::take_hook();
    std::panic::set_hook(Box::new(|_| {}));
    let run = std::panic::catch_unwind(AssertUnwindSafe(|| {
        futures::executor::block_on(
            cucumber::Cucumber::<ZooA, _, (), _, _, cucumber::cli::Empty>::custom(
                ZParser(vec![feat("A", "one"), feat("B", "two"), outline]),
                runner,
                ZRec::default(),
            )
            .with_cli(cucumber::cli::Opts::<cucumber::cli::Empty, cucumber::runner::basic::Cli, cucumber::cli::Empty, cucumber::cli::Empty> {
                re_filter: None,
                tags_filter: None,
                parser: cucumber::cli::Empty,
                runner: cucumber::runner::basic::Cli::default(),
                writer: cucumber::cli::Empty,
                custom: cucumber::cli::Empty,
            })
            .run(()),
        )
    }));
    std::panic::set_hook(prev);
    if run.is_err() {
        return vec!["the run panicked".into()];
    }
    let calls = CALLS.with(|c| c.borrow().clone());
    let want = vec![
        "ctx_doc(same,Some(\"one\"),[])".to_owned(),
        "ctx_doc(same,Some(\"two\"),[])".to_owned(),
        "ctx_doc(row,None,[[\"k\", \"r1\"]])".to_owned(),
        "ctx_doc(row,None,[[\"k\", \"r2\"]])".to_owned(),
    ];
    if calls == want {
        vec![]
    } else {
        vec![format!(
            "steps with equal text and position but different doc strings / tables: the `step` argument saw {calls:?}, the steps executed were {want:?}"
        )]
    }
}

// ------------------------------------------------- C10: errors of macro steps

/// One line per event that matters for C10.
#[derive(Clone, Debug, Default)]
pub struct ZRec(pub Vec<String>);

impl cucumber::Writer<ZooA> for ZRec {
    type Cli = cucumber::cli::Empty;
    async fn handle_event(
        &mut self,
        ev: cucumber::parser::Result<cucumber::Event<cucumber::event::Cucumber<ZooA>>>,
        _: &Self::Cli,
    ) {
        use cucumber::event::{Cucumber as C, Feature as F, Hook, Rule as R, Scenario as S, Step as St};
        let Ok(ev) = ev else {
            self.0.push("parse-error".into());
            return;
        };
        let line = |sc: &gherkin::Scenario, ev: &S<ZooA>| -> Option<String> {
            let n = &sc.name;
            Some(match ev {
                S::Started => format!("{n}: started"),
                S::Finished => format!("{n}: finished"),
                S::Step(st, St::Started) | S::Background(st, St::Started) => format!("{n}: {} started", st.value),
                S::Step(st, St::Passed(..)) | S::Background(st, St::Passed(..)) => format!("{n}: {} passed", st.value),
                S::Step(st, St::Skipped) | S::Background(st, St::Skipped) => format!("{n}: {} skipped", st.value),
                S::Step(st, St::Failed(_, _, _, e)) | S::Background(st, St::Failed(_, _, _, e)) => {
                    format!("{n}: {} failed {}", st.value, crate::canon::step_error(e))
                }
                S::Hook(ty, Hook::Started) => format!("{n}: hook {ty:?} started"),
                S::Hook(ty, Hook::Passed) => format!("{n}: hook {ty:?} passed"),
                S::Hook(ty, Hook::Failed(..)) => format!("{n}: hook {ty:?} failed"),
                S::Log(_) => return None,
            })
        };
        match ev.value {
            C::Finished => self.0.push("run finished".into()),
            C::Feature(_, F::Scenario(sc, ev)) | C::Feature(_, F::Rule(_, R::Scenario(sc, ev))) => {
                if let Some(l) = line(&sc, &ev.event) {
                    self.0.push(l);
                }
            }
            _ => {}
        }
    }
}

impl cucumber::writer::Normalized for ZRec {}
impl cucumber::writer::NonTransforming for ZRec {}
impl cucumber::writer::Arbitrary<ZooA, String> for ZRec {
    async fn write(&mut self, val: String) {
        self.0.push(format!("write: {}", val.lines().next().unwrap_or("")));
    }
}

thread_local! {
    static AFTER_REASONS: RefCell<Vec<String>> = const { RefCell::new(Vec::new()) };
}

struct ZParser(Vec<gherkin::Feature>);

impl cucumber::Parser<()> for ZParser {
    type Cli = cucumber::cli::Empty;
    type Output = futures::stream::LocalBoxStream<'static, cucumber::parser::Result<gherkin::Feature>>;
    fn parse(self, (): (), _: cucumber::cli::Empty) -> Self::Output {
        use futures::StreamExt as _;
        futures::stream::iter(self.0.into_iter().map(Ok)).boxed_local()
    }
}

/// C10, "an error in a step": every way a macro-registered step can report an
/// error (returned `Err` behind several spellings of the return type, sync and
/// async, a capture that does not parse) through the real runner: the step must
/// become Failed with the payload, later steps must not run, the after hook runs
/// once with the failure as its reason, the attempt and the run still finish and
/// the neighbouring scenario is unaffected.
pub fn c10_macro_errors() -> Vec<(String, String)> {
    use cucumber::event::ScenarioFinished as Fin;
    const CASES: [(&str, &str, &str); 6] = [
        ("result", "Then result err", "returned err"),
        ("alias", "Then alias err", "aliased err"),
        ("io", "Then io err", "io err"),
        ("async-result", "Then async result err", "my error x"),
        ("parse", "Given parse 300", ""),
        ("slice-parse", "When regex 99999999999 and w", ""),
    ];
    let mut text = String::from("Feature: Z\n");
    for (name, step, _) in CASES {
        text += &format!("  Scenario: {name}\n    {step}\n    Then result ok\n");
    }
    text += "  Scenario: fine\n    Then result ok\n    Then alias ok\n";
    let feat = gherkin::Feature::parse(&text, gherkin::GherkinEnv::default()).expect("zoo feature");
    let feat_again = feat.clone();
    AFTER_REASONS.with(|r| r.borrow_mut().clear());
    let runner = cucumber::runner::Basic::<ZooA>::default()
        .max_concurrent_scenarios(Some(1))
        .steps(ZooA::collection())
        .after(|_, _, sc, fin, _| {
            let r = match fin {
                Fin::StepFailed(..) => "StepFailed",
                Fin::StepPassed => "StepPassed",
                Fin::StepSkipped => "StepSkipped",
                Fin::BeforeHookFailed(_) => "BeforeHookFailed",
            };
            AFTER_REASONS.with(|v| v.borrow_mut().push(format!("{}: {r}", sc.name)));
            futures::future::ready(()).boxed_local()
        });
    let prev = std::panic::take_hook();
    std::panic::set_hook(Box::new(|_| {}));
    let run = std::panic::catch_unwind(AssertUnwindSafe(|| {
        futures::executor::block_on(
            cucumber::Cucumber::<ZooA, _, (), _, _, cucumber::cli::Empty>::custom(ZParser(vec![feat]), runner, ZRec::default())
                .with_cli(cucumber::cli::Opts::<cucumber::cli::Empty, cucumber::runner::basic::Cli, cucumber::cli::Empty, cucumber::cli::Empty> {
                    re_filter: None,
                    tags_filter: None,
                    parser: cucumber::cli::Empty,
                    runner: cucumber::runner::basic::Cli::default(),
                    writer: cucumber::cli::Empty,
                    custom: cucumber::cli::Empty,
                })
                .run(()),
        )
    }));
    std::panic::set_hook(prev);
    let mut out = Vec::new();
    let lines = match run {
        Ok(w) => w.0,
        Err(_) => {
            out.push(("escaped".into(), "an error returned by a macro step escaped from the run as a panic".into()));
            return out;
        }
    };
    let reasons = AFTER_REASONS.with(|r| r.borrow().clone());
    for (name, step, payload) in CASES {
        let text = step.split_once(' ').unwrap().1;
        let mine: Vec<&String> = lines.iter().filter(|l| l.starts_with(&format!("{name}: "))).collect();
        let failed = mine.iter().find(|l| l.starts_with(&format!("{name}: {text} failed")));
        match failed {
            None => out.push((
                "error-lost".into(),
                format!("macro step `{step}` reported an error but no Failed event was emitted for it; events of the scenario: {mine:?}"),
            )),
            Some(l) if !l.contains(payload) || !l.contains("Panic(") => out.push((
                "payload-lost".into(),
                format!("macro step `{step}`: the Failed event does not carry the error {payload:?}: {l}"),
            )),
            Some(_) => {}
        }
        if mine.iter().any(|l| l.contains("result ok")) {
            out.push(("step-after-failure".into(), format!("scenario {name}: a step ran after the failed one: {mine:?}")));
        }
        if mine.last().map(|l| l.as_str()) != Some(&format!("{name}: finished")) {
            out.push(("unfinished".into(), format!("scenario {name} has no Finished event at its end: {mine:?}")));
        }
        let rs: Vec<&String> = reasons.iter().filter(|r| r.starts_with(&format!("{name}: "))).collect();
        if rs.len() != 1 || !rs[0].ends_with("StepFailed") {
            out.push(("after-hook".into(), format!("scenario {name}: after hook calls {rs:?}, expected exactly one with reason StepFailed")));
        }
    }
    let fine: Vec<&String> = lines.iter().filter(|l| l.starts_with("fine: ")).collect();
    if fine.iter().filter(|l| l.ends_with(" passed") && !l.contains(": hook ")).count() != 2 || fine.iter().any(|l| l.contains("failed")) {
        out.push(("other-scenario-affected".into(), format!("the scenario without errors did not pass both steps: {fine:?}")));
    }
    if lines.last().map(String::as_str) != Some("run finished") {
        out.push(("run-unfinished".into(), format!("the run did not end with run-Finished: last event {:?}", lines.last())));
    }
    // "after the run completes the panic hook that was installed before it is in place again":
    // also for a failed run driven through `run_and_exit()`, which ends in a panic of its own
    {
        use cucumber::WriterExt as _;
        use std::sync::atomic::{AtomicUsize, Ordering};
        static HITS: AtomicUsize = AtomicUsize::new(0);
        let prev = std::panic::take_hook();
        std::panic::set_hook(Box::new(|_| {
            HITS.fetch_add(1, Ordering::SeqCst);
        }));
        let runner = cucumber::runner::Basic::<ZooA>::default()
            .max_concurrent_scenarios(Some(1))
            .steps(ZooA::collection());
        let res = std::panic::catch_unwind(AssertUnwindSafe(|| {
            futures::executor::block_on(
                cucumber::Cucumber::<ZooA, _, (), _, _, cucumber::cli::Empty>::custom(
                    ZParser(vec![feat_again]),
                    runner,
                    ZRec::default().summarized(),
                )
                .with_cli(cucumber::cli::Opts::<cucumber::cli::Empty, cucumber::runner::basic::Cli, cucumber::cli::Empty, cucumber::cli::Empty> {
                    re_filter: None,
                    tags_filter: None,
                    parser: cucumber::cli::Empty,
                    runner: cucumber::runner::basic::Cli::default(),
                    writer: cucumber::cli::Empty,
                    custom: cucumber::cli::Empty,
                })
                .run_and_exit(()),
            )
        }));
        let before = HITS.load(Ordering::SeqCst);
        let _ = std::panic::catch_unwind(|| std::panic::panic_any("probe"));
        let after = HITS.load(Ordering::SeqCst);
        std::panic::set_hook(prev);
        if res.is_ok() {
            out.push(("exit-verdict".into(), "run_and_exit() returned normally although steps failed".into()));
        }
        if after != before + 1 {
            out.push((
                "hook-not-restored-after-exit".into(),
                format!("after a failed run through run_and_exit() a panic did not reach the panic hook that was installed before the run (hook invocations {before} -> {after})"),
            ));
        }
    }
    out
}

/// C17 end to end, "a step is matched against the definitions registered for its keyword":
/// definitions registered through `runner::Basic::given / when / then`, also on a clone of a
/// runner and on a runner whose clone is still alive (a template runner specialised per
/// suite), are all there when the steps are looked up; each step has exactly one and passes.
pub fn c17_runner_registration() -> Vec<(String, String)> {
    use cucumber::runner::Basic;
    fn noop(_: &mut ZooA, _: cucumber::step::Context) -> futures::future::LocalBoxFuture<'_, ()> {
        Box::pin(async {})
    }
    let re = |p: &str| regex::Regex::new(p).expect("regex");
    let text = "Feature: R\n  Scenario: reg\n    Given reg one\n    When reg two\n    Then reg three\n    Then reg one\n";
    let mut out = Vec::new();
    for variant in ["fresh", "on-clone-sibling-alive", "on-original-clone-alive", "steps-then-clone"] {
        let feat = gherkin::Feature::parse(text, gherkin::GherkinEnv::default()).expect("feature");
        let base = Basic::<ZooA>::default().max_concurrent_scenarios(Some(1)).given(re("^reg one$"), noop);
        let (runner, keep) = match variant {
            "fresh" => (base.when(re("^reg two$"), noop).then(re("^reg three$"), noop), None),
            "on-clone-sibling-alive" => {
                let r = base.clone().when(re("^reg two$"), noop).then(re("^reg three$"), noop);
                (r, Some(base))
            }
            "on-original-clone-alive" => {
                let keep = base.clone();
                (base.when(re("^reg two$"), noop).then(re("^reg three$"), noop), Some(keep))
            }
            _ => {
                let coll = cucumber::step::Collection::<ZooA>::new().given(None, re("^reg one$"), noop);
                let b = Basic::<ZooA>::default().max_concurrent_scenarios(Some(1)).steps(coll);
                let keep = b.clone();
                (b.when(re("^reg two$"), noop).then(re("^reg three$"), noop), Some(keep))
            }
        };
        let prev = std::panic::take_hook();
        std::panic::set_hook(Box::new(|_| {}));
        let run = std::panic::catch_unwind(AssertUnwindSafe(|| {
            futures::executor::block_on(
                cucumber::Cucumber::<ZooA, _, (), _, _, cucumber::cli::Empty>::custom(ZParser(vec![feat]), runner, ZRec::default())
                    .with_cli(cucumber::cli::Opts::<cucumber::cli::Empty, cucumber::runner::basic::Cli, cucumber::cli::Empty, cucumber::cli::Empty> {
                        re_filter: None,
                        tags_filter: None,
                        parser: cucumber::cli::Empty,
                        runner: cucumber::runner::basic::Cli::default(),
                        writer: cucumber::cli::Empty,
                        custom: cucumber::cli::Empty,
                    })
                    .run(()),
            )
        }));
        std::panic::set_hook(prev);
        drop(keep);
        let Ok(w) = run else {
            out.push(("runner-registration".into(), format!("{variant}: the run panicked")));
            continue;
        };
        let got: Vec<&String> = w.0.iter().filter(|l| l.starts_with("reg: reg ") && !l.ends_with(" started")).collect();
        // `Then reg one` has no definition under Then (it is registered under Given only)
        let want = ["reg: reg one passed", "reg: reg two passed", "reg: reg three passed", "reg: reg one skipped"];
        if got.iter().map(|s| s.as_str()).collect::<Vec<_>>() != want {
            out.push((
                "runner-registration".into(),
                format!("definitions registered through runner::Basic::given/when/then ({variant}): step results {got:?}, expected {want:?}"),
            ));
        }
    }
    out
}
