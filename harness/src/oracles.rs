//! Trace oracles for the scheduler properties (C02–C10), evaluated on every
//! complete execution of the real runner.

use std::collections::{BTreeMap, BTreeSet, HashMap};

use crate::{
    canon::{Ev, HookEv, ScEv, StepEv},
    exec::{Anomaly, Trace},
    hs::{LogKind, WOutcome},
    refm::{self, AttemptPred, InvCounters, WorldObs},
    spec::{Config, Gran, Item, ScenInfo},
};

#[derive(Clone, Debug)]
pub struct Violation {
    pub prop: &'static str,
    /// Short class of the deviation (used to match known findings).
    pub key: String,
    pub msg: String,
}

fn v(prop: &'static str, key: &str, msg: String) -> Violation {
    Violation { prop, key: key.to_owned(), msg }
}

#[derive(Clone, Debug)]
pub struct AttemptObs {
    pub current: usize,
    pub retries: Option<(usize, usize)>,
    /// indices into `trace.events`
    pub idxs: Vec<usize>,
    pub started: Option<usize>,
    pub finished: Option<usize>,
    pub pred: Option<AttemptPred>,
    pub world: WorldObs,
}

impl AttemptObs {
    pub fn has_failure(&self, tr: &Trace) -> bool {
        self.idxs.iter().any(|i| {
            matches!(
                tr.events[*i].ev.scenario().map(|x| x.2),
                Some(ScEv::Step(_, _, _, StepEv::Failed(..)) | ScEv::Hook(_, HookEv::Failed(..)))
            )
        })
    }
    pub fn final_failure(&self, tr: &Trace) -> bool {
        self.has_failure(tr) && self.retries.is_none_or(|(_, left)| left == 0)
    }
}

#[derive(Clone, Debug)]
pub struct ScenObs {
    pub info: ScenInfo,
    pub attempts: Vec<AttemptObs>,
    pub retry: Option<(usize, Option<std::time::Duration>)>,
    pub serial: bool,
    /// Background steps are shared with other scenarios of the feature.
    pub shared_bg: bool,
}

pub struct Analysis {
    pub scens: Vec<ScenObs>,
    pub by_name: HashMap<String, usize>,
    /// names in events that are not part of the configuration
    pub unknown: Vec<String>,
    /// items the runner pulled from the harness parser, in order
    pub delivered: Vec<usize>,
    /// index of the `Finished` event of the first finally-failed attempt
    pub first_final_failure: Option<usize>,
}

pub fn analyse(cfg: &Config, tr: &Trace) -> Analysis {
    let infos = cfg.scen_infos();
    let mut by_name = HashMap::new();
    let mut scens: Vec<ScenObs> = infos
        .into_iter()
        .enumerate()
        .map(|(i, info)| {
            by_name.insert(info.name.clone(), i);
            ScenObs {
                retry: refm::scen_retry(cfg, &info),
                serial: refm::is_serial(cfg, &info),
                shared_bg: false,
                info,
                attempts: Vec::new(),
            }
        })
        .collect();
    let mut unknown = Vec::new();
    for (i, te) in tr.events.iter().enumerate() {
        if let Some((name, retries, ev)) = te.ev.scenario() {
            let Some(si) = by_name.get(name) else {
                unknown.push(name.to_owned());
                continue;
            };
            let cur = retries.map_or(0, |r| r.0);
            let sc = &mut scens[*si];
            let pos = sc.attempts.iter().position(|a| a.current == cur);
            let a = match pos {
                Some(p) => &mut sc.attempts[p],
                None => {
                    sc.attempts.push(AttemptObs {
                        current: cur,
                        retries,
                        idxs: vec![],
                        started: None,
                        finished: None,
                        pred: None,
                        world: WorldObs::Ok,
                    });
                    sc.attempts.last_mut().unwrap()
                }
            };
            a.idxs.push(i);
            match ev {
                ScEv::Started if a.started.is_none() => a.started = Some(i),
                ScEv::Finished if a.finished.is_none() => a.finished = Some(i),
                _ => {}
            }
        }
    }
    // predictions
    let shared_bg_feats: BTreeSet<usize> = {
        let mut count: BTreeMap<usize, usize> = BTreeMap::new();
        for s in &scens {
            *count.entry(s.info.feat_idx).or_default() += 1;
        }
        count.into_iter().filter(|(_, c)| *c > 1).map(|(f, _)| f).collect()
    };
    for sc in &mut scens {
        let mut inv = InvCounters::new();
        let shared = shared_bg_feats.contains(&sc.info.feat_idx);
        sc.shared_bg = shared;
        // attempts are predicted in order of `current`
        let mut order: Vec<usize> = (0..sc.attempts.len()).collect();
        order.sort_by_key(|i| sc.attempts[*i].current);
        for ai in order {
            let evs: Vec<&ScEv> = sc.attempts[ai]
                .idxs
                .iter()
                .filter_map(|i| tr.events[*i].ev.scenario().map(|x| x.2))
                .collect();
            let w = refm::world_obs(&evs);
            sc.attempts[ai].world = w;
            let p = refm::predict_attempt(
                &sc.info, cfg.before, cfg.after, &cfg.plan, &mut inv, shared, w,
            );
            sc.attempts[ai].pred = Some(p);
        }
    }
    let delivered = tr
        .log
        .iter()
        .filter_map(|l| if let LogKind::ParserDeliver(i) = l.kind { Some(i) } else { None })
        .collect();
    let mut first_final_failure = None;
    'o: for (i, te) in tr.events.iter().enumerate() {
        if let Some((name, retries, ScEv::Finished)) = te.ev.scenario() {
            if let Some(si) = by_name.get(name) {
                let cur = retries.map_or(0, |r| r.0);
                if let Some(a) = scens[*si].attempts.iter().find(|a| a.current == cur) {
                    if a.final_failure(tr) {
                        first_final_failure = Some(i);
                        break 'o;
                    }
                }
            }
        }
    }
    Analysis { scens, by_name, unknown, delivered, first_final_failure }
}

fn aborted(tr: &Trace) -> bool {
    tr.anomalies.iter().any(|a| {
        matches!(
            a,
            Anomaly::EscapedPanic(_) | Anomaly::IdleSpin(_) | Anomaly::PollHorizon | Anomaly::Stuck { .. }
        )
    })
}

// ------------------------------------------------------------------------ C02

pub fn c02(cfg: &Config, tr: &Trace, an: &Analysis, out: &mut Vec<Violation>) {
    let _ = cfg;
    for sc in &an.scens {
        let n = sc.retry.map(|r| r.0);
        for a in &sc.attempts {
            let pred = a.pred.as_ref().unwrap();
            let obs: Vec<ScEv> = a
                .idxs
                .iter()
                .filter_map(|i| tr.events[*i].ev.scenario().map(|x| refm::norm_obs(x.2)))
                .filter(|e| !matches!(e, ScEv::Log(_)))
                .collect();
            let complete = a.finished.is_some();
            let cmp_len = if complete { pred.events.len().max(obs.len()) } else { obs.len() };
            let mut bad = None;
            for k in 0..cmp_len {
                if obs.get(k) != pred.events.get(k) {
                    bad = Some(k);
                    break;
                }
            }
            if let Some(k) = bad {
                out.push(v(
                    "C02",
                    "sequence",
                    format!(
                        "scenario {} attempt {}: event #{k} differs\n  observed: {:?}\n  expected: {:?}",
                        sc.info.name,
                        a.current,
                        obs.iter().map(ScEv::short).collect::<Vec<_>>(),
                        pred.events.iter().map(ScEv::short).collect::<Vec<_>>()
                    ),
                ));
            }
            let escaped = tr.anomalies.iter().any(|x| matches!(x, Anomaly::EscapedPanic(_)));
            if !complete && (tr.ended || escaped) {
                out.push(v(
                    "C02",
                    "unfinished",
                    format!(
                        "scenario {} attempt {} never got Finished{}",
                        sc.info.name,
                        a.current,
                        if escaped { " (a panic escaped the run)" } else { "" }
                    ),
                ));
            }
            // same retry counter on every event, and the right one
            let expect = n.map(|n| (a.current, n.saturating_sub(a.current)));
            for i in &a.idxs {
                let r = tr.events[*i].ev.scenario().unwrap().1;
                if r != expect {
                    out.push(v(
                        "C02",
                        "retries-field",
                        format!(
                            "scenario {} attempt {}: event {} carries retries {:?}, expected {:?}",
                            sc.info.name,
                            a.current,
                            tr.events[*i].ev.short(),
                            r,
                            expect
                        ),
                    ));
                    break;
                }
            }
            // world ids consistent inside the attempt
            let ids: BTreeSet<usize> = a
                .idxs
                .iter()
                .filter_map(|i| match tr.events[*i].ev.scenario().unwrap().2 {
                    ScEv::Step(_, _, _, StepEv::Failed(_, Some(w)))
                    | ScEv::Hook(_, HookEv::Failed(_, Some(w))) => Some(*w),
                    _ => None,
                })
                .collect();
            if ids.len() > 1 {
                out.push(v(
                    "C02",
                    "world-ids",
                    format!("scenario {} attempt {}: several worlds {ids:?}", sc.info.name, a.current),
                ));
            }
        }
    }
    for u in &an.unknown {
        out.push(v("C04", "unknown-scenario", format!("event of unknown scenario {u}")));
    }
    // identity: one `Source` per feature / rule / scenario for all their events (attempts included)
    let mut f_ptr: BTreeMap<String, usize> = BTreeMap::new();
    let mut r_ptr: BTreeMap<String, usize> = BTreeMap::new();
    let mut s_ptr: BTreeMap<String, usize> = BTreeMap::new();
    fn chk(m: &mut BTreeMap<String, usize>, name: &str, p: usize, what: &str) -> Option<String> {
        let prev = *m.entry(name.to_owned()).or_insert(p);
        (prev != p).then(|| format!("{what} {name} is referred to by two different `Source`s"))
    }
    for te in &tr.events {
        if let Ev::Sc { f, r, s, ptrs, .. } = &te.ev {
            let mut bad = chk(&mut f_ptr, f, ptrs.0, "feature");
            if let Some(r) = r {
                bad = bad.or(chk(&mut r_ptr, r, ptrs.1, "rule"));
            }
            bad = bad.or(chk(&mut s_ptr, s, ptrs.2, "scenario"));
            if let Some(msg) = bad {
                out.push(v("C02", "source-identity", msg));
                break;
            }
        }
    }
}



// ------------------------------------------------------------------------ C03

pub fn c03(cfg: &Config, tr: &Trace, an: &Analysis, out: &mut Vec<Violation>) {
    if let Some(Anomaly::EscapedPanic(p)) = tr.anomalies.iter().find(|a| matches!(a, Anomaly::EscapedPanic(_))) {
        out.push(v(
            "C03",
            "run-finished",
            format!("the stream is cut by an escaped panic ({p}): open brackets are never closed and there is no run-Finished"),
        ));
    }
    let evs: Vec<&Ev> = tr.events.iter().map(|e| &e.ev).collect();
    let pos_started: Vec<usize> =
        evs.iter().enumerate().filter(|(_, e)| ***e == Ev::Started).map(|(i, _)| i).collect();
    let first_feat = evs.iter().position(|e| e.feature_name().is_some());
    if tr.ended || !aborted(tr) {
        if pos_started.len() != 1 {
            out.push(v("C03", "run-started", format!("{} run-Started events", pos_started.len())));
        } else if let Some(ff) = first_feat {
            if pos_started[0] > ff {
                out.push(v("C03", "run-started", "run-Started after a feature event".into()));
            }
        }
    }
    // parser errors: exactly those pulled, in order
    let expected_errs: Vec<String> = an
        .delivered
        .iter()
        .filter_map(|i| match &cfg.items[*i] {
            Item::Err(t) => Some(format!("Expansion({t})")),
            Item::Feat(_) => None,
        })
        .collect();
    let got_errs: Vec<String> = evs
        .iter()
        .filter_map(|e| if let Ev::ParseErr(s) = e { Some(s.clone()) } else { None })
        .collect();
    if tr.ended && expected_errs != got_errs {
        out.push(v(
            "C03",
            "parse-errors",
            format!("parser errors delivered {expected_errs:?}, stream has {got_errs:?}"),
        ));
    }
    // ParsingFinished
    let pf: Vec<(usize, &Ev)> = evs
        .iter()
        .enumerate()
        .filter(|(_, e)| matches!(e, Ev::ParsingFinished { .. }))
        .map(|(i, e)| (i, *e))
        .collect();
    if tr.ended {
        if pf.len() != 1 {
            out.push(v("C03", "parsing-finished", format!("{} ParsingFinished events", pf.len())));
        } else {
            let (i, e) = pf[0];
            if let Some(last_err) = evs.iter().rposition(|e| matches!(e, Ev::ParseErr(_))) {
                if last_err > i {
                    out.push(v("C03", "parsing-finished", "ParsingFinished before a parser error".into()));
                }
            }
            let feats: Vec<usize> = an
                .delivered
                .iter()
                .filter_map(|i| if let Item::Feat(f) = cfg.items[*i] { Some(f) } else { None })
                .collect();
            let nf = feats.len();
            let nr: usize = feats.iter().map(|f| cfg.feats[*f].rules.len()).sum();
            let ns: usize = feats
                .iter()
                .map(|f| {
                    cfg.feats[*f].scenarios.len()
                        + cfg.feats[*f].rules.iter().map(|r| r.scenarios.len()).sum::<usize>()
                })
                .sum();
            let own: usize = an
                .scens
                .iter()
                .filter(|s| feats.contains(&s.info.feat_idx))
                .map(|s| s.info.own_steps)
                .sum();
            let with_bg: usize = an
                .scens
                .iter()
                .filter(|s| feats.contains(&s.info.feat_idx))
                .map(|s| s.info.calls.len())
                .sum();
            let declared_bg: usize = feats
                .iter()
                .map(|f| cfg.feats[*f].bg.len() + cfg.feats[*f].rules.iter().map(|r| r.bg.len()).sum::<usize>())
                .sum();
            let ne = expected_errs.len();
            if let Ev::ParsingFinished { features, rules, scenarios, steps, parser_errors } = e {
                let steps_ok = *steps == own || *steps == with_bg || *steps == own + declared_bg;
                if (*features, *rules, *scenarios, *parser_errors) != (nf, nr, ns, ne) || !steps_ok {
                    out.push(v(
                        "C03",
                        "parsing-finished-counts",
                        format!(
                            "ParsingFinished {e:?} but received features={nf} rules={nr} scenarios={ns} steps={own} (with bg {with_bg}) errors={ne}"
                        ),
                    ));
                }
            }
        }
        // run Finished last
        let fin: Vec<usize> =
            evs.iter().enumerate().filter(|(_, e)| ***e == Ev::Finished).map(|(i, _)| i).collect();
        if fin.len() != 1 || fin[0] != evs.len() - 1 {
            out.push(v(
                "C03",
                "run-finished",
                format!("run-Finished positions {fin:?} of {} events", evs.len()),
            ));
        }
    }
    // brackets
    if !tr.ended {
        return;
    }
    let mut feats: BTreeMap<String, (Vec<usize>, Vec<usize>, Vec<usize>)> = BTreeMap::new();
    let mut rules: BTreeMap<(String, String), (Vec<usize>, Vec<usize>, Vec<usize>)> = BTreeMap::new();
    for (i, e) in evs.iter().enumerate() {
        match e {
            Ev::FeatStarted(f) => feats.entry(f.clone()).or_default().0.push(i),
            Ev::FeatFinished(f) => feats.entry(f.clone()).or_default().1.push(i),
            Ev::RuleStarted(f, r) => {
                feats.entry(f.clone()).or_default().2.push(i);
                rules.entry((f.clone(), r.clone())).or_default().0.push(i);
            }
            Ev::RuleFinished(f, r) => {
                feats.entry(f.clone()).or_default().2.push(i);
                rules.entry((f.clone(), r.clone())).or_default().1.push(i);
            }
            Ev::Sc { f, r, .. } => {
                feats.entry(f.clone()).or_default().2.push(i);
                if let Some(r) = r {
                    rules.entry((f.clone(), r.clone())).or_default().2.push(i);
                }
            }
            _ => {}
        }
    }
    for (f, (st, fi, content)) in &feats {
        let has_sc = evs.iter().any(|e| matches!(e, Ev::Sc { f: ff, .. } if ff == f));
        if !has_sc {
            out.push(v("C03", "empty-bracket", format!("feature {f} has bracket events but no scenario")));
            continue;
        }
        if st.len() != 1 || fi.len() != 1 {
            out.push(v(
                "C03",
                "feature-bracket",
                format!("feature {f}: {} Started, {} Finished", st.len(), fi.len()),
            ));
            continue;
        }
        if content.iter().any(|c| *c < st[0] || *c > fi[0]) {
            out.push(v("C03", "feature-bracket", format!("feature {f}: content outside its bracket")));
        }
    }
    for ((f, r), (st, fi, content)) in &rules {
        if content.is_empty() {
            out.push(v("C03", "empty-bracket", format!("rule {r} has bracket events but no scenario")));
            continue;
        }
        if st.len() != 1 || fi.len() != 1 {
            out.push(v(
                "C03",
                "rule-bracket",
                format!("rule {r}: {} Started, {} Finished", st.len(), fi.len()),
            ));
            continue;
        }
        if content.iter().any(|c| *c < st[0] || *c > fi[0]) {
            out.push(v("C03", "rule-bracket", format!("rule {r}: content outside its bracket")));
        }
        if let Some((fst, ffi, _)) = feats.get(f) {
            if fst.len() == 1 && ffi.len() == 1 && (st[0] < fst[0] || fi[0] > ffi[0]) {
                out.push(v("C03", "rule-bracket", format!("rule {r}: bracket outside feature {f}")));
            }
        }
    }
    // every scenario event must lie inside a feature bracket (i.e. the bracket exists)
    for e in &evs {
        if let Ev::Sc { f, .. } = e {
            if !feats.contains_key(f) || feats[f].0.is_empty() {
                out.push(v("C03", "feature-bracket", format!("feature {f}: scenario events without Started")));
                break;
            }
        }
    }
}

// ------------------------------------------------------------------------ C04

pub fn c04(cfg: &Config, tr: &Trace, an: &Analysis, out: &mut Vec<Violation>) {
    for a in &tr.anomalies {
        match a {
            Anomaly::IdleSpin(n) => out.push(v(
                "C04",
                "idle-spin",
                format!("runner spun {n} idle turns inside one poll without suspending"),
            )),
            Anomaly::PollHorizon => {
                out.push(v("C04", "poll-horizon", "poll horizon exceeded".into()));
            }
            Anomaly::Stuck { self_waking } => out.push(v(
                "C04",
                "stuck",
                format!(
                    "stream not ended, every gate released, no timer (self_waking={self_waking}); armed at end {:?}",
                    tr.armed_at_end
                ),
            )),
            Anomaly::EscapedPanic(p) => out.push(v(
                "C04",
                "aborted-by-panic",
                format!("the run was aborted by a panic ({p}): the stream never ends and queued scenarios are never attempted"),
            )),
            Anomaly::PrefixDivergence(_) => {}
        }
    }
    if tr.log.iter().any(|l| l.kind == LogKind::ParserPolledAfterEnd) {
        out.push(v(
            "C04",
            "parser-polled-after-end",
            "the parser stream was polled again after it had ended (a non-fused stream may block or panic there)".into(),
        ));
    }
    if !tr.ended {
        return;
    }
    let final_failure = an.first_final_failure.is_some();
    let any_err = an.delivered.iter().any(|i| matches!(cfg.items[*i], Item::Err(_)));
    let must_run_all = !cfg.fail_fast() || (!final_failure && !any_err);
    let supplied_feats: BTreeSet<usize> = an
        .delivered
        .iter()
        .filter_map(|i| if let Item::Feat(f) = cfg.items[*i] { Some(f) } else { None })
        .collect();
    if must_run_all {
        // every item must have been pulled
        if an.delivered.len() != cfg.items.len() {
            out.push(v(
                "C04",
                "parser-not-drained",
                format!("runner pulled items {:?} of {}", an.delivered, cfg.items.len()),
            ));
        }
        for sc in &an.scens {
            if supplied_feats.contains(&sc.info.feat_idx) && sc.attempts.is_empty() {
                out.push(v(
                    "C04",
                    "not-attempted",
                    format!("scenario {} was supplied but never started", sc.info.name),
                ));
            }
        }
    }
    for sc in &an.scens {
        if !supplied_feats.contains(&sc.info.feat_idx) && !sc.attempts.is_empty() {
            out.push(v(
                "C04",
                "not-supplied",
                format!("scenario {} ran although its feature was never delivered", sc.info.name),
            ));
        }
    }
    if !cfg.fail_fast() && !tr.armed_at_end.is_empty() {
        out.push(v(
            "C04",
            "abandoned",
            format!("stream ended with futures still pending: {:?}", tr.armed_at_end),
        ));
    }
}

// ------------------------------------------------------------------------ C05

/// "... while other scenarios keep running meanwhile": user code whose gate the harness
/// released must be resumed before virtual time moves on (under L0 the clock only
/// moves at quiescence, i.e. after the runner had every chance to poll it).
fn c05_starvation(cfg: &Config, tr: &Trace, out: &mut Vec<Violation>) {
    if cfg.gran != crate::spec::Gran::L0 {
        return;
    }
    for (i, l) in tr.log.iter().enumerate() {
        let LogKind::Released(label) = &l.kind else { continue };
        let resumed = tr.log[i..].iter().find(|x| {
            matches!(&x.kind, LogKind::Exit { key, inv, .. } if format!("{key}#{inv}") == *label)
        });
        if let Some(x) = resumed {
            if x.vtime > l.vtime {
                out.push(v(
                    "C05",
                    "starved-during-delay",
                    format!(
                        "user code {label} could continue at {:?} but was only polled again at {:?}: running scenarios made no progress while the runner waited",
                        l.vtime, x.vtime
                    ),
                ));
                return;
            }
        }
    }
}

pub fn c05(cfg: &Config, tr: &Trace, an: &Analysis, out: &mut Vec<Violation>) {
    c05_starvation(cfg, tr, out);
    let cut = cfg.fail_fast()
        && (an.first_final_failure.is_some()
            || an.delivered.iter().any(|i| matches!(cfg.items[*i], Item::Err(_))));
    for sc in &an.scens {
        if sc.attempts.is_empty() {
            continue;
        }
        let n = sc.retry.map_or(0, |r| r.0);
        let delay = sc.retry.and_then(|r| r.1);
        let mut atts: Vec<&AttemptObs> = sc.attempts.iter().collect();
        atts.sort_by_key(|a| a.current);
        // attempt numbers are 0..m without gaps, in stream order
        for (k, a) in atts.iter().enumerate() {
            if a.current != k {
                out.push(v(
                    "C05",
                    "attempt-numbering",
                    format!("scenario {}: attempts {:?}", sc.info.name, atts.iter().map(|a| a.current).collect::<Vec<_>>()),
                ));
                break;
            }
        }
        if atts.len() > n + 1 {
            out.push(v(
                "C05",
                "over-budget",
                format!("scenario {}: {} attempts with budget {n}", sc.info.name, atts.len()),
            ));
        }
        for w in atts.windows(2) {
            let (a, b) = (w[0], w[1]);
            // no overlap, order
            if let (Some(f), Some(s)) = (a.finished, b.started) {
                if s < f || b.idxs.iter().any(|i| *i < f) {
                    out.push(v(
                        "C05",
                        "overlap",
                        format!("scenario {}: attempt {} overlaps attempt {}", sc.info.name, b.current, a.current),
                    ));
                }
                if let Some(d) = delay {
                    let (t1, t2) = (tr.events[f].vtime, tr.events[s].vtime);
                    let exact_ok = t2.saturating_sub(t1) >= d;
                    // ground truth necessary condition (see DESIGN §6 C05)
                    let last_exit = last_log_time(tr, sc, a.current);
                    let first_enter = first_log_time(tr, sc, b.current);
                    let log_ok = match (last_exit, first_enter) {
                        (Some(x), Some(y)) => y.saturating_sub(x) >= d,
                        _ => true,
                    };
                    let bad = if cfg.gran == Gran::L0 { !exact_ok || !log_ok } else { !log_ok };
                    if bad {
                        out.push(v(
                            "C05",
                            "delay",
                            format!(
                                "scenario {}: retry {} started {:?} after the failed attempt ended (delay {d:?}); log {last_exit:?} -> {first_enter:?}",
                                sc.info.name,
                                b.current,
                                t2.saturating_sub(t1)
                            ),
                        ));
                    }
                }
            } else if a.finished.is_none() {
                out.push(v(
                    "C05",
                    "overlap",
                    format!("scenario {}: attempt {} exists while attempt {} never finished", sc.info.name, b.current, a.current),
                ));
            }
        }
        // existence: k+1 exists <=> k failed and k < n
        for (k, a) in atts.iter().enumerate() {
            let pred = a.pred.as_ref().unwrap();
            let should_retry = pred.failed && k < n;
            let exists = atts.len() > k + 1;
            if a.finished.is_none() {
                continue;
            }
            if exists && !should_retry {
                out.push(v(
                    "C05",
                    "spurious-retry",
                    format!(
                        "scenario {}: attempt {} exists although attempt {k} {} (budget {n})",
                        sc.info.name,
                        k + 1,
                        if pred.failed { "exhausted the budget" } else { "did not fail" }
                    ),
                ));
            }
            if !exists && should_retry && tr.ended && !cut {
                out.push(v(
                    "C05",
                    "missing-retry",
                    format!("scenario {}: attempt {k} failed with budget {n} but was not retried", sc.info.name),
                ));
            }
        }
    }
}

fn scen_log_indices(tr: &Trace, sc: &ScenObs) -> Vec<usize> {
    let own = own_keys(sc);
    let mut worlds: BTreeSet<usize> = BTreeSet::new();
    for l in &tr.log {
        if let LogKind::Enter { key, world: Some(w), .. } = &l.kind {
            if own.contains(key.as_str()) {
                worlds.insert(*w);
            }
        }
    }
    let mut cur_keys: HashMap<(String, usize), bool> = HashMap::new();
    let mut out = Vec::new();
    for (i, l) in tr.log.iter().enumerate() {
        let mine = match &l.kind {
            LogKind::NewEnter(n) | LogKind::NewExit(n, _) => worlds.contains(n),
            LogKind::Enter { key, world, inv, .. } => {
                let m = own.contains(key.as_str()) || world.is_some_and(|w| worlds.contains(&w));
                if m {
                    cur_keys.insert((key.clone(), *inv), true);
                }
                m
            }
            LogKind::Exit { key, inv, .. } => cur_keys.contains_key(&(key.clone(), *inv)),
            LogKind::AfterReason { key, .. } => own.contains(key.as_str()),
            LogKind::Emit { .. }
            | LogKind::ParserDeliver(_)
            | LogKind::ParserPolledAfterEnd
            | LogKind::Released(_) => false,
        };
        if mine {
            out.push(i);
        }
    }
    out
}

fn own_keys(sc: &ScenObs) -> BTreeSet<String> {
    let info = &sc.info;
    let mut s: BTreeSet<String> = info
        .calls
        .iter()
        .filter(|c| !c.is_bg || !sc.shared_bg)
        .map(|c| c.key.clone())
        .collect();
    s.insert(format!("before {}", info.name));
    s.insert(format!("after {}", info.name));
    s
}

/// Splits the log entries of a scenario into attempts.
fn scen_log_attempts(tr: &Trace, sc: &ScenObs) -> Vec<Vec<usize>> {
    let idx = scen_log_indices(tr, sc);
    let mut atts: Vec<Vec<usize>> = Vec::new();
    let mut seen: BTreeSet<String> = BTreeSet::new();
    let mut has_world = false;
    for i in idx {
        let new_attempt = match &tr.log[i].kind {
            LogKind::NewEnter(_) => has_world || seen.iter().any(|k| k.starts_with("after ")),
            LogKind::Enter { key, .. } => {
                seen.contains(key) || seen.iter().any(|k| k.starts_with("after "))
            }
            _ => false,
        };
        if new_attempt || atts.is_empty() {
            atts.push(Vec::new());
            seen.clear();
            has_world = false;
        }
        match &tr.log[i].kind {
            LogKind::NewEnter(_) => has_world = true,
            LogKind::Enter { key, .. } => {
                seen.insert(key.clone());
            }
            _ => {}
        }
        atts.last_mut().unwrap().push(i);
    }
    atts
}

fn last_log_time(tr: &Trace, sc: &ScenObs, attempt: usize) -> Option<std::time::Duration> {
    let atts = scen_log_attempts(tr, sc);
    // attempts without user code leave no log; only usable if counts agree
    if atts.len() != sc.attempts.len() {
        return None;
    }
    atts.get(attempt).and_then(|a| a.last()).map(|i| tr.log[*i].vtime)
}

fn first_log_time(tr: &Trace, sc: &ScenObs, attempt: usize) -> Option<std::time::Duration> {
    let atts = scen_log_attempts(tr, sc);
    if atts.len() != sc.attempts.len() {
        return None;
    }
    atts.get(attempt).and_then(|a| a.first()).map(|i| tr.log[*i].vtime)
}

// ------------------------------------------------------------------------ C06

pub fn c06(cfg: &Config, tr: &Trace, an: &Analysis, out: &mut Vec<Violation>) {
    let limit = cfg.limit();
    let mut in_flight: i64 = 0;
    let mut max_seen = 0i64;
    let mut finished_total = 0usize;
    let total_scen = an.scens.len();
    let mut q = tr.quiescent_at.iter().peekable();
    let mut open: Vec<(String, usize)> = Vec::new();
    // weak work conservation, applicable whenever nothing may legitimately hold a
    // dispatch back: eager parser, no fail-fast, no serial scenario. A scenario
    // that has never started must not sit idle next to a free slot (retries that
    // wait for their delay are not counted).
    // With a lazy parser only the scenarios of features the parser has already handed
    // over count (the runner polls the parser whenever it is polled).
    let weak = !cfg.fail_fast() && cfg.gran == Gran::L0;
    // feature index -> number of events pulled when the parser delivered it
    let mut delivered_at: BTreeMap<usize, usize> = BTreeMap::new();
    for l in &tr.log {
        if let LogKind::ParserDeliver(k) = l.kind {
            if let Some(Item::Feat(f)) = cfg.items.get(k) {
                delivered_at.entry(*f).or_insert(l.events_seen);
            }
        }
    }
    let mut ever_started: BTreeSet<String> = BTreeSet::new();
    let serial_names: BTreeSet<&str> =
        an.scens.iter().filter(|s| s.serial).map(|s| s.info.name.as_str()).collect();
    // per serial scenario: (open attempt?, vtime of the last failed-with-retries-left Finished still waiting)
    let mut serial_open: BTreeSet<String> = BTreeSet::new();
    let mut serial_waiting: BTreeMap<String, (std::time::Duration, Option<std::time::Duration>)> = BTreeMap::new();
    let mut attempt_failed: BTreeSet<(String, usize)> = BTreeSet::new();
    let mut qi = 0usize;
    for (i, te) in tr.events.iter().enumerate() {
        // quiescent points before event i
        while let Some(&&qa) = q.peek() {
            if qa <= i {
                q.next();
                if cfg.expect_conservation && qa == i {
                    check_conservation(limit, in_flight, total_scen - finished_total, i, out);
                }
                let now = tr.quiescent_vtime.get(qi).copied().unwrap_or_default();
                qi += 1;
                if weak && qa == i && i > 0 {
                    let never_conc = an
                        .scens
                        .iter()
                        .filter(|s| !s.serial && !ever_started.contains(&s.info.name))
                        // (lazy parser: the statement promises refilling "after each completion",
                        // so a late feature counts from the first completion after its delivery)
                        .filter(|s| {
                            !cfg.lazy
                                || delivered_at.get(&s.info.feat_idx).is_some_and(|at| {
                                    tr.events[..i].iter().enumerate().any(|(e, te)| {
                                        e >= *at && matches!(te.ev.scenario(), Some((_, _, ScEv::Finished)))
                                    })
                                })
                        })
                        .count();
                    let never = never_conc;
                    // a serial scenario may legitimately hold the others back while it runs, while it
                    // has never started (it goes first), or once its retry is due
                    let serial_blocks = !serial_open.is_empty()
                        || serial_names.iter().any(|n| !ever_started.contains(*n))
                        || (cfg.lazy && !serial_names.is_empty())
                        || serial_waiting.values().any(|(since, delay)| {
                            delay.is_none_or(|d| now.saturating_sub(*since) >= d)
                        });
                    let free = limit.map_or(true, |k| (in_flight as usize) < k);
                    // the run-level Started must have been seen (the runner is past its first poll)
                    let running = tr.events[..i].iter().any(|e| e.ev == Ev::Started);
                    if running
                        && never > 0
                        && free
                        && !serial_blocks
                        && out.iter().all(|x| x.key != "idle-next-to-free-slot")
                    {
                        out.push(v(
                            "C06",
                            "idle-next-to-free-slot",
                            format!(
                                "quiescent before event #{i}: {never} scenarios never started, {in_flight} in flight, limit {limit:?}"
                            ),
                        ));
                    }
                }
            } else {
                break;
            }
        }
        if let Some((name, _, ScEv::Started)) = te.ev.scenario() {
            ever_started.insert(name.to_owned());
        }
        if let Some((name, retries, ev)) = te.ev.scenario() {
            let cur = retries.map_or(0, |r| r.0);
            if matches!(ev, ScEv::Step(_, _, _, StepEv::Failed(..)) | ScEv::Hook(_, HookEv::Failed(..))) {
                attempt_failed.insert((name.to_owned(), cur));
            }
            if serial_names.contains(name) {
                match ev {
                    ScEv::Started => {
                        serial_open.insert(name.to_owned());
                        serial_waiting.remove(name);
                    }
                    ScEv::Finished => {
                        serial_open.remove(name);
                        let left = retries.map_or(0, |r| r.1);
                        if left > 0 && attempt_failed.contains(&(name.to_owned(), cur)) {
                            let delay = an
                                .by_name
                                .get(name)
                                .and_then(|i| an.scens[*i].retry)
                                .and_then(|r| r.1);
                            serial_waiting.insert(name.to_owned(), (te.vtime, delay));
                        }
                    }
                    _ => {}
                }
            }
        }
        if let Some((name, retries, ev)) = te.ev.scenario() {
            let cur = retries.map_or(0, |r| r.0);
            match ev {
                ScEv::Started => {
                    in_flight += 1;
                    open.push((name.to_owned(), cur));
                }
                ScEv::Finished => {
                    in_flight -= 1;
                    finished_total += 1;
                    open.retain(|(n, c)| !(n == name && *c == cur));
                }
                _ => {
                    if limit == Some(1) && !open.iter().any(|(n, c)| n == name && *c == cur) {
                        out.push(v(
                            "C06",
                            "interleave-at-1",
                            format!("limit 1: event {} outside its own attempt window", te.ev.short()),
                        ));
                    }
                }
            }
            max_seen = max_seen.max(in_flight);
            if let Some(k) = limit {
                if i128::from(in_flight) > k as i128 {
                    out.push(v(
                        "C06",
                        "over-limit",
                        format!("{in_flight} attempts in flight at event #{i} with limit {k}"),
                    ));
                    return;
                }
            }
        }
    }
    // user code in progress per the ground-truth log
    if let Some(k) = limit {
        let mut active: BTreeMap<String, usize> = BTreeMap::new();
        let key_scen = |key: &str| -> Option<String> {
            an.scens.iter().find(|s| own_keys(s).contains(key)).map(|s| s.info.name.clone())
        };
        for l in &tr.log {
            match &l.kind {
                LogKind::Enter { key, .. } => {
                    if let Some(s) = key_scen(key) {
                        *active.entry(s).or_default() += 1;
                    }
                }
                LogKind::Exit { key, .. } => {
                    if let Some(s) = key_scen(key) {
                        if let Some(c) = active.get_mut(&s) {
                            *c -= 1;
                            if *c == 0 {
                                active.remove(&s);
                            }
                        }
                    }
                }
                _ => {}
            }
            if active.len() > k {
                out.push(v(
                    "C06",
                    "user-code-over-limit",
                    format!("user code of {} scenarios in progress with limit {k}", active.len()),
                ));
                return;
            }
        }
    }
}

fn check_conservation(
    limit: Option<usize>,
    in_flight: i64,
    unfinished: usize,
    at: usize,
    out: &mut Vec<Violation>,
) {
    let want = limit.map_or(unfinished, |k| k.min(unfinished)) as i64;
    if in_flight != want && out.iter().all(|x| x.key != "not-work-conserving") {
        out.push(v(
            "C06",
            "not-work-conserving",
            format!(
                "quiescent before event #{at}: {in_flight} attempts in flight, limit {limit:?}, {unfinished} scenarios unfinished"
            ),
        ));
    }
}

// ------------------------------------------------------------------------ C07

pub fn c07(cfg: &Config, tr: &Trace, an: &Analysis, out: &mut Vec<Violation>) {
    let _ = cfg;
    // stream view
    for sc in an.scens.iter().filter(|s| s.serial) {
        for a in &sc.attempts {
            let (Some(s), Some(f)) = (a.started, a.finished.or(Some(tr.events.len()))) else {
                continue;
            };
            for other in &an.scens {
                for b in &other.attempts {
                    if other.info.name == sc.info.name && b.current == a.current {
                        continue;
                    }
                    let bs = b.started.unwrap_or(usize::MAX);
                    let bf = b.finished.unwrap_or(tr.events.len());
                    let overlap = bs < f && bf > s;
                    let inside = b.idxs.iter().any(|i| *i > s && *i < f);
                    if overlap || inside {
                        out.push(v(
                            "C07",
                            "serial-overlap",
                            format!(
                                "serial {}[{}] (events {s}..{f}) overlaps {}[{}] (events {}..{})",
                                sc.info.name, a.current, other.info.name, b.current, bs, bf
                            ),
                        ));
                        return;
                    }
                }
            }
        }
    }
    // ground-truth view: user code of another scenario inside a serial attempt's code window
    let per_scen: Vec<(usize, Vec<Vec<usize>>)> =
        an.scens.iter().enumerate().map(|(i, s)| (i, scen_log_attempts(tr, s))).collect();
    for (si, atts) in &per_scen {
        if !an.scens[*si].serial {
            continue;
        }
        for a in atts {
            let (Some(lo), Some(hi)) = (a.first(), a.last()) else { continue };
            for (oi, oatts) in &per_scen {
                if oi == si {
                    continue;
                }
                if oatts.iter().flatten().any(|i| i > lo && i < hi) {
                    out.push(v(
                        "C07",
                        "serial-code-overlap",
                        format!(
                            "user code of {} ran inside the code window of serial {}",
                            an.scens[*oi].info.name, an.scens[*si].info.name
                        ),
                    ));
                    return;
                }
            }
        }
    }
}

// ------------------------------------------------------------------------ C08

pub fn c08(cfg: &Config, tr: &Trace, an: &Analysis, out: &mut Vec<Violation>) {
    if !cfg.fail_fast() {
        return;
    }
    if let Some(t) = an.first_final_failure {
        let late: Vec<String> = tr.events[t + 1..]
            .iter()
            .filter_map(|e| match e.ev.scenario() {
                Some((n, r, ScEv::Started)) => Some(format!("{n}{r:?}")),
                _ => None,
            })
            .collect();
        let allowed = cfg.limit().map_or(usize::MAX, |k| k.saturating_sub(1));
        if late.len() > allowed {
            out.push(v(
                "C08",
                "dispatch-after-failure",
                format!(
                    "{} attempts started after the first final failure (limit {:?}): {late:?}",
                    late.len(),
                    cfg.limit()
                ),
            ));
        }
    }
    // whatever is dispatched after the final failure shows as a bracket opened after it:
    // feature / rule brackets are opened when their first scenario is dispatched
    if let Some(t) = an.first_final_failure {
        if let Some(e) = tr.events[t + 1..]
            .iter()
            .find(|e| matches!(e.ev, Ev::FeatStarted(_) | Ev::RuleStarted(..)))
        {
            out.push(v(
                "C08",
                "bracket-opened-after-failure",
                format!("{} was opened after the first final failure (event #{t}): something was dispatched after it", e.ev.short()),
            ));
        }
    }
    // a failure that is retried (and no parser error) must not cut the run
    let any_err = an.delivered.iter().any(|i| matches!(cfg.items[*i], Item::Err(_)));
    if tr.ended && an.first_final_failure.is_none() && !any_err {
        for sc in &an.scens {
            if sc.attempts.is_empty() {
                out.push(v(
                    "C08",
                    "cut-without-final-failure",
                    format!("fail-fast: {} never started although nothing failed finally", sc.info.name),
                ));
                break;
            }
            let last = sc.attempts.iter().max_by_key(|a| a.current).unwrap();
            if last.has_failure(tr) && last.retries.is_some_and(|(_, left)| left > 0) {
                out.push(v(
                    "C08",
                    "cut-without-final-failure",
                    format!("fail-fast: {} failed with retries left but was not retried", sc.info.name),
                ));
                break;
            }
        }
    }
    // no item pulled after the first parser error
    if let Some(pos) = an.delivered.iter().position(|i| matches!(cfg.items[*i], Item::Err(_))) {
        if an.delivered.len() > pos + 1 {
            out.push(v(
                "C08",
                "ingest-after-error",
                format!("parser items pulled after the first error: {:?}", &an.delivered[pos + 1..]),
            ));
        }
    }
    // "... and the run ends with run-Finished": a fail-fast cut (final failure or parser
    // error) that leaves the stream open for ever does not close cleanly
    if !tr.ended
        && (an.first_final_failure.is_some() || any_err)
        && tr.anomalies.iter().any(|a| matches!(a, Anomaly::Stuck { .. } | Anomaly::IdleSpin(_) | Anomaly::PollHorizon))
    {
        out.push(v(
            "C08",
            "run-never-finished",
            format!(
                "fail-fast: after the {} the stream neither ends nor emits run-Finished ({:?})",
                if any_err { "parser error" } else { "final failure" },
                tr.anomalies
            ),
        ));
    }
    if tr.ended {
        let fins: Vec<usize> = tr
            .events
            .iter()
            .enumerate()
            .filter(|(_, e)| e.ev == Ev::Finished)
            .map(|(i, _)| i)
            .collect();
        if fins.len() != 1 || fins[0] + 1 != tr.events.len() {
            out.push(v(
                "C08",
                "run-finished",
                format!("fail-fast: the run does not end with run-Finished (positions {fins:?} of {} items)", tr.events.len()),
            ));
        }
        for sc in &an.scens {
            for a in &sc.attempts {
                if a.finished.is_none() {
                    out.push(v(
                        "C08",
                        "unfinished",
                        format!("fail-fast: {}[{}] started but never finished", sc.info.name, a.current),
                    ));
                }
            }
        }
    } else if !aborted(tr) {
        out.push(v("C08", "no-end", "fail-fast run did not end".into()));
    }
}

// ------------------------------------------------------------------------ C09

pub fn c09(cfg: &Config, tr: &Trace, an: &Analysis, out: &mut Vec<Violation>) {
    // a panic that escapes the run takes the after hooks of every attempt in flight with it
    if cfg.after && tr.anomalies.iter().any(|a| matches!(a, Anomaly::EscapedPanic(_))) {
        for sc in &an.scens {
            // the events of the aborting poll are lost with it: count begun attempts by
            // their first user code as well
            let bkey = format!("before {}", sc.info.name);
            let befores = tr
                .log
                .iter()
                .filter(|l| matches!(&l.kind, LogKind::Enter { key: k, .. } if *k == bkey))
                .count();
            let started = sc.attempts.iter().filter(|a| a.started.is_some()).count().max(befores);
            let key = format!("after {}", sc.info.name);
            let afters = tr
                .log
                .iter()
                .filter(|l| matches!(&l.kind, LogKind::Enter { key: k, .. } if *k == key))
                .count();
            if afters < started {
                out.push(v(
                    "C09",
                    "after-hook-missing",
                    format!(
                        "scenario {}: {started} attempts started but the after hook ran {afters} times (the run was aborted by an escaped panic)",
                        sc.info.name
                    ),
                ));
            }
        }
    }
    if aborted(tr) {
        return;
    }
    let mut world_owner: BTreeMap<usize, (String, usize)> = BTreeMap::new();
    let mut predicted_new = 0usize;
    for sc in &an.scens {
        let log_atts = scen_log_attempts(tr, sc);
        let mut atts: Vec<&AttemptObs> = sc.attempts.iter().filter(|a| a.finished.is_some()).collect();
        atts.sort_by_key(|a| a.current);
        predicted_new += atts.iter().map(|a| a.pred.as_ref().unwrap().world_new_calls).sum::<usize>();
        // attempts that make no call leave no log
        let with_calls: Vec<&&AttemptObs> = atts
            .iter()
            .filter(|a| {
                let p = a.pred.as_ref().unwrap();
                !p.calls.is_empty() || (p.world_new_calls > 0 && a.world == WorldObs::Ok)
            })
            .collect();
        for a in &atts {
            let (n, want) = match a.world {
                WorldObs::Ok => continue,
                WorldObs::Err(n) => (n, WOutcome::Err),
                WorldObs::Panic(n) => (n, WOutcome::Panic),
            };
            if !tr.log.iter().any(|l| l.kind == LogKind::NewExit(n, want)) {
                out.push(v(
                    "C09",
                    "world-failure-origin",
                    format!("scenario {}[{}]: reports World failure #{n} that never happened", sc.info.name, a.current),
                ));
            }
        }
        if !tr.ended {
            continue;
        }
        let attributable = !sc.shared_bg
            || cfg.before
            || cfg.after
            || sc.info.calls.iter().any(|c| !c.is_bg && c.kind == crate::spec::StepKind::Matched);
        if !attributable {
            continue;
        }
        if with_calls.len() != log_atts.len() {
            out.push(v(
                "C09",
                "call-attempts",
                format!(
                    "scenario {}: {} attempts with user code predicted, log shows {}",
                    sc.info.name,
                    with_calls.len(),
                    log_atts.len()
                ),
            ));
            continue;
        }
        for (a, la) in with_calls.iter().zip(&log_atts) {
            let pred = a.pred.as_ref().unwrap();
            let enters: Vec<&LogKind> = la
                .iter()
                .map(|i| &tr.log[*i].kind)
                .filter(|k| matches!(k, LogKind::Enter { .. }))
                .collect();
            let news = la.iter().filter(|i| matches!(tr.log[**i].kind, LogKind::NewEnter(_))).count();
            let ok_news = la
                .iter()
                .filter(|i| matches!(tr.log[**i].kind, LogKind::NewExit(_, WOutcome::Ok)))
                .count();
            // failed creations are not attributable; successful ones are
            let want_ok = usize::from(pred.world_new_calls > 0 && a.world == WorldObs::Ok);
            if ok_news != want_ok || news > 1 {
                out.push(v(
                    "C09",
                    "world-creations",
                    format!(
                        "scenario {}[{}]: {news} World::new calls ({ok_news} ok), predicted {want_ok}",
                        sc.info.name, a.current
                    ),
                ));
            }
            let got: Vec<String> = enters
                .iter()
                .map(|k| if let LogKind::Enter { key, .. } = k { key.clone() } else { unreachable!() })
                .collect();
            let want: Vec<String> = pred.calls.iter().map(|c| c.key.clone()).collect();
            if got != want {
                out.push(v(
                    "C09",
                    "call-sequence",
                    format!(
                        "scenario {}[{}]: user code called {got:?}, contract says {want:?}",
                        sc.info.name, a.current
                    ),
                ));
                continue;
            }
            let mut wid: Option<usize> = None;
            for (k, c) in enters.iter().zip(&pred.calls) {
                if let LogKind::Enter { key, world, counter, stamp, .. } = k {
                    if world.is_some() != c.has_world {
                        out.push(v(
                            "C09",
                            "world-presence",
                            format!(
                                "scenario {}[{}]: {key} got world={world:?}, expected present={}",
                                sc.info.name, a.current, c.has_world
                            ),
                        ));
                    }
                    if let Some(w) = world {
                        if wid.is_some_and(|x| x != *w) {
                            out.push(v(
                                "C09",
                                "world-switch",
                                format!("scenario {}[{}]: {key} saw another World", sc.info.name, a.current),
                            ));
                        }
                        wid = Some(*w);
                        if *counter != Some(c.counter) {
                            out.push(v(
                                "C09",
                                "world-state",
                                format!(
                                    "scenario {}[{}]: {key} saw World counter {counter:?}, expected {}",
                                    sc.info.name, a.current, c.counter
                                ),
                            ));
                        }
                        if cfg.before && !key.starts_with("before ") {
                            if stamp.as_deref() != Some(sc.info.name.as_str()) {
                                out.push(v(
                                    "C09",
                                    "world-stamp",
                                    format!(
                                        "scenario {}[{}]: {key} saw a World stamped {stamp:?}",
                                        sc.info.name, a.current
                                    ),
                                ));
                            }
                        }
                    }
                }
            }
            if let Some(w) = wid {
                if let Some(prev) = world_owner.insert(w, (sc.info.name.clone(), a.current)) {
                    out.push(v(
                        "C09",
                        "world-shared",
                        format!("World {w} seen by {prev:?} and by {}[{}]", sc.info.name, a.current),
                    ));
                }
            }
            // after hook reason
            if let Some(want) = &pred.after_reason {
                let got = la.iter().find_map(|i| match &tr.log[*i].kind {
                    LogKind::AfterReason { reason, .. } => Some(reason.clone()),
                    _ => None,
                });
                let got_n = got.as_deref().map(norm_reason);
                if got_n.as_deref() != Some(want.as_str()) {
                    out.push(v(
                        "C09",
                        "after-reason",
                        format!(
                            "scenario {}[{}]: after hook was told {got:?}, true reason {want}",
                            sc.info.name, a.current
                        ),
                    ));
                }
            }
        }
    }
    if tr.ended && !cfg.fail_fast() {
        let total_new = tr.log.iter().filter(|l| matches!(l.kind, LogKind::NewEnter(_))).count();
        if total_new != predicted_new {
            out.push(v(
                "C09",
                "world-total",
                format!("{total_new} World::new calls in total, contract predicts {predicted_new}"),
            ));
        }
    }
}

fn norm_reason(r: &str) -> String {
    if let Some(i) = r.find("world-err#") {
        let n: String = r[i + 10..].chars().take_while(char::is_ascii_digit).collect();
        if r.starts_with("BeforeHookFailed") {
            return format!("BeforeHookFailed(WorldErr#{n})");
        }
        return format!("StepFailed(Panic(WorldErr#{n}))");
    }
    r.to_owned()
}

// ------------------------------------------------------------------------ C10

fn ev_short(e: &ScEv) -> String {
    match e {
        ScEv::Step(bg, text, _, _) => format!("{}('{text}') Failed", if *bg { "Background" } else { "Step" }),
        ScEv::Hook(k, _) => format!("Hook({k:?}) Failed"),
        o => format!("{o:?}"),
    }
}

pub fn c10(cfg: &Config, tr: &Trace, an: &Analysis, out: &mut Vec<Violation>) {
    let _ = (cfg, an);
    for a in &tr.anomalies {
        if let Anomaly::EscapedPanic(p) = a {
            out.push(v("C10", "escaped-panic", format!("panic escaped the run: {p}")));
        }
    }
    // every payload the harness plants is a String, a &str or its custom type:
    // a Failed event whose payload cannot be downcast to any of them lost it
    for te in &tr.events {
        let p = match te.ev.scenario().map(|x| x.2) {
            Some(ScEv::Step(_, _, _, StepEv::Failed(p, _))) | Some(ScEv::Hook(_, HookEv::Failed(p, _))) => p,
            _ => continue,
        };
        if p.contains("Unknown") {
            out.push(v(
                "C10",
                "payload-lost",
                format!("{}: the Failed event does not carry the panic payload", te.ev.short()),
            ));
            break;
        }
    }
    // "... becomes the *corresponding* Failed event": a failing step is reported on that
    // step, as the kind it is (background or scenario step), a failing hook as that hook
    for l in &tr.log {
        let LogKind::Exit { key, inv, outcome } = &l.kind else { continue };
        if !outcome.is_fail() || *outcome == crate::hs::Outcome::PanicStr {
            continue; // (the &str payload is a constant: not attributable)
        }
        let needle = format!("{key}#{inv}");
        let hit = tr.events.iter().enumerate().find_map(|(i, te)| match te.ev.scenario().map(|x| x.2) {
            Some(ev @ ScEv::Step(_, _, _, StepEv::Failed(p, _))) if p.contains(&needle) => Some((i, ev)),
            Some(ev @ ScEv::Hook(_, HookEv::Failed(p, _))) if p.contains(&needle) => Some((i, ev)),
            _ => None,
        });
        let Some((at, ev)) = hit else { continue };
        // "... carrying the payload": the value that was thrown, of the type it was thrown as
        let want = crate::refm::panic_payload(*outcome, key, *inv);
        let carried = match ev {
            ScEv::Step(_, _, _, StepEv::Failed(p, _)) | ScEv::Hook(_, HookEv::Failed(p, _)) => p.clone(),
            _ => String::new(),
        };
        if !carried.contains(&want) {
            out.push(v(
                "C10",
                "payload-retyped",
                format!("the panic of {key}#{inv} threw {want} but its Failed event carries {carried}"),
            ));
            break;
        }
        // ... of the attempt that ran it: the same retry counter as that attempt's Started
        if let Some((name, retries, _)) = tr.events[at].ev.scenario() {
            let started = tr.events[..at].iter().rev().find_map(|te| match te.ev.scenario() {
                Some((n, r, ScEv::Started)) if n == name => Some(r),
                _ => None,
            });
            if let Some(sr) = started {
                if sr != retries {
                    out.push(v(
                        "C10",
                        "wrong-failed-event",
                        format!(
                            "the panic of {key}#{inv} is reported by a Failed event carrying retries {retries:?}, the attempt that ran it carries {sr:?}: it is not an event of that attempt"
                        ),
                    ));
                    break;
                }
            }
        }
        let ok = match ev {
            ScEv::Step(bg, text, _, _) => {
                let want_bg = key.starts_with("bg ") || key.starts_with("rbg ");
                (key.starts_with("step ") || want_bg) && *bg == want_bg && crate::spec::strip_lead(text) == key
            }
            ScEv::Hook(k, _) => {
                (key.starts_with("before ") && *k == crate::canon::HookKind::Before)
                    || (key.starts_with("after ") && *k == crate::canon::HookKind::After)
            }
            _ => true,
        };
        if !ok {
            out.push(v(
                "C10",
                "wrong-failed-event",
                format!("the panic of {key}#{inv} is reported by {}, not by the Failed event of that {}", ev_short(ev),
                    if key.starts_with("before ") || key.starts_with("after ") { "hook" } else { "step (background steps as Background, scenario steps as Step)" }),
            ));
            break;
        }
    }
    // "... the attempt still gets its after hook": a finished attempt with a failure has the
    // after hook's events if an after hook is set
    if cfg.after && tr.ended {
        'outer: for sc in &an.scens {
            for a in &sc.attempts {
                if a.finished.is_some() && a.has_failure(tr) {
                    let has_after = a.idxs.iter().any(|i| {
                        matches!(
                            tr.events[*i].ev.scenario().map(|x| x.2),
                            Some(ScEv::Hook(crate::canon::HookKind::After, HookEv::Started))
                        )
                    });
                    if !has_after {
                        out.push(v(
                            "C10",
                            "after-hook-missing",
                            format!("{}[{}] failed and finished without its after hook", sc.info.name, a.current),
                        ));
                        break 'outer;
                    }
                }
            }
        }
    }
    // a panic in one scenario leaves the others unaffected: every other started attempt
    // still reaches its Finished event
    let panicked: BTreeSet<&str> = tr
        .log
        .iter()
        .filter_map(|l| match &l.kind {
            LogKind::Exit { key, outcome, .. } if outcome.is_fail() => Some(key.as_str()),
            _ => None,
        })
        .collect();
    if tr.ended && !panicked.is_empty() {
        for sc in &an.scens {
            let own = own_keys(sc);
            if own.iter().any(|k| panicked.contains(k.as_str())) {
                continue;
            }
            if let Some(a) = sc.attempts.iter().find(|a| a.started.is_some() && a.finished.is_none()) {
                out.push(v(
                    "C10",
                    "other-scenario-affected",
                    format!(
                        "user code of another scenario panicked and {}[{}] was started but never finished",
                        sc.info.name, a.current
                    ),
                ));
                break;
            }
        }
    }
    if tr.sentinel_during > 0 {
        out.push(v(
            "C10",
            "hook-noise",
            format!("process panic hook was invoked {} times during the run", tr.sentinel_during),
        ));
    }
    if tr.ended && tr.hook_restored != Some(true) {
        out.push(v("C10", "hook-not-restored", "panic hook not restored after the run".into()));
    }
    if tr.ended && !matches!(tr.events.last().map(|e| &e.ev), Some(Ev::Finished)) {
        out.push(v("C10", "no-run-finished", "run did not end with run-Finished".into()));
    }
}

/// Configurations that deliver the same feature (equal by value) more than
/// once: scenario names are no longer unique, so the instances are told apart
/// by their `Source` identity and a reduced set of oracles is evaluated.
pub fn check_duplicates(cfg: &Config, tr: &Trace) -> Vec<Violation> {
    let mut out = Vec::new();
    for a in &tr.anomalies {
        match a {
            Anomaly::EscapedPanic(p) => {
                out.push(v("C04", "aborted-by-panic", format!("the run was aborted by a panic ({p}): supplied scenarios are never attempted")));
                out.push(v("C10", "escaped-panic", format!("panic escaped the run: {p}")));
                out.push(v("C03", "run-finished", format!("the stream never reached run-Finished (panic {p})")));
            }
            Anomaly::Stuck { .. } | Anomaly::PollHorizon | Anomaly::IdleSpin(_) => {
                out.push(v("C04", "stuck", format!("run did not terminate: {a:?}")));
            }
            Anomaly::PrefixDivergence(_) => {}
        }
    }
    if !tr.ended {
        return out;
    }
    // instances supplied: every occurrence of a feature item contributes its scenarios
    let mut supplied = 0usize;
    let mut feat_instances = 0usize;
    for it in &cfg.items {
        if let Item::Feat(i) = it {
            let f = &cfg.feats[*i];
            let n = f.scenarios.len() + f.rules.iter().map(|r| r.scenarios.len()).sum::<usize>();
            supplied += n;
            if n > 0 {
                feat_instances += 1;
            }
        }
    }
    let mut per_instance: BTreeMap<usize, (usize, usize)> = BTreeMap::new();
    for te in &tr.events {
        if let Ev::Sc { ptrs, ev, .. } = &te.ev {
            let e = per_instance.entry(ptrs.2).or_default();
            match ev {
                ScEv::Started => e.0 += 1,
                ScEv::Finished => e.1 += 1,
                _ => {}
            }
        }
    }
    if !cfg.fail_fast() && per_instance.len() != supplied {
        out.push(v(
            "C04",
            "not-attempted",
            format!("{supplied} scenario instances were supplied (a feature delivered twice), {} were attempted", per_instance.len()),
        ));
    }
    if per_instance.values().any(|(s, f)| s != f) {
        out.push(v("C02", "unfinished", "a scenario instance has a different number of Started and Finished events".into()));
    }
    let fs = tr.events.iter().filter(|e| matches!(e.ev, Ev::FeatStarted(_))).count();
    let ff = tr.events.iter().filter(|e| matches!(e.ev, Ev::FeatFinished(_))).count();
    if !cfg.fail_fast() && (fs != feat_instances || ff != feat_instances) {
        out.push(v(
            "C03",
            "feature-bracket",
            format!("{feat_instances} feature instances with scenarios were delivered, the stream has {fs} Started and {ff} Finished brackets"),
        ));
    }
    if !matches!(tr.events.last().map(|e| &e.ev), Some(Ev::Finished)) {
        out.push(v("C03", "run-finished", "run-Finished is not the last item".into()));
    }
    if cfg.fail_fast() {
        // "every started feature and rule still gets its Finished"
        let rs = tr.events.iter().filter(|e| matches!(e.ev, Ev::RuleStarted(..))).count();
        let rf = tr.events.iter().filter(|e| matches!(e.ev, Ev::RuleFinished(..))).count();
        if fs != ff || rs != rf {
            out.push(v(
                "C08",
                "unclosed-bracket",
                format!("fail-fast: {fs} features started and {ff} finished, {rs} rules started and {rf} finished"),
            ));
        }
    }
    // limit
    if let Some(k) = cfg.limit() {
        let mut fl = 0i64;
        for te in &tr.events {
            match te.ev.scenario().map(|x| x.2) {
                Some(ScEv::Started) => fl += 1,
                Some(ScEv::Finished) => fl -= 1,
                _ => {}
            }
            if i128::from(fl) > k as i128 {
                out.push(v("C06", "over-limit", format!("{fl} attempts in flight with limit {k}")));
                break;
            }
        }
    }
    out
}

pub fn check_all(cfg: &Config, tr: &Trace) -> Vec<Violation> {
    let mut seen = BTreeSet::new();
    let duplicates = cfg.items.iter().any(|it| match it {
        Item::Feat(i) => !seen.insert(*i),
        Item::Err(_) => false,
    });
    if duplicates {
        return check_duplicates(cfg, tr);
    }
    let an = analyse(cfg, tr);
    let mut out = Vec::new();
    c02(cfg, tr, &an, &mut out);
    c03(cfg, tr, &an, &mut out);
    c04(cfg, tr, &an, &mut out);
    c05(cfg, tr, &an, &mut out);
    c06(cfg, tr, &an, &mut out);
    c07(cfg, tr, &an, &mut out);
    c08(cfg, tr, &an, &mut out);
    c09(cfg, tr, &an, &mut out);
    c10(cfg, tr, &an, &mut out);
    out
}
