//! Harness state: gates, plan, ground-truth log, test World, step fns, hooks.
//!
//! Everything is thread-local: one explorer per OS thread/process, one
//! execution at a time.

use std::{
    cell::RefCell,
    collections::{BTreeMap, BTreeSet},
    future::Future,
    pin::Pin,
    task::{Context as TaskCx, Poll, Waker},
    time::Duration,
};

use cucumber::{event::ScenarioFinished, step::Context};
use futures::future::LocalBoxFuture;

// ------------------------------------------------------------------ outcomes

/// What a user callable does once it runs.
#[derive(Clone, Copy, Debug, PartialEq, Eq, Hash, PartialOrd, Ord)]
pub enum Outcome {
    Pass,
    /// Panics with `String` payload.
    PanicString,
    /// Panics with `&'static str` payload.
    PanicStr,
    /// Panics with a custom payload type.
    PanicCustom,
    /// The panic is raised on a helper thread and re-raised in the callable
    /// (`thread::spawn(..).join()` + `resume_unwind`); the payload is a boxed error
    /// (`Box<dyn Error + Send + Sync>`), a fourth payload type.
    PanicOnThread,
}

impl Outcome {
    pub fn is_fail(self) -> bool {
        self != Outcome::Pass
    }
    pub fn short(self) -> &'static str {
        match self {
            Outcome::Pass => "pass",
            Outcome::PanicString => "panicString",
            Outcome::PanicStr => "panicStr",
            Outcome::PanicCustom => "panicCustom",
            Outcome::PanicOnThread => "panicOnThread",
        }
    }
}

/// What `World::new()` does on a given (global) call.
#[derive(Clone, Copy, Debug, PartialEq, Eq, Hash, PartialOrd, Ord)]
pub enum WOutcome {
    Ok,
    Err,
    Panic,
}

/// Custom panic payload.
#[derive(Clone, Debug, PartialEq, Eq)]
pub struct CustomPayload(pub String);

/// Which callables block on a gate before acting.
#[derive(Clone, Debug, PartialEq, Eq)]
pub enum GateMode {
    None,
    /// All matched steps (scenario + background).
    Steps,
    Hooks,
    WorldNew,
    All,
    /// Callable keys (prefix match on the key).
    Set(BTreeSet<String>),
}

impl GateMode {
    pub fn gated(&self, key: &str) -> bool {
        let is_step = key.starts_with("step ")
            || key.starts_with("bg ")
            || key.starts_with("rbg ");
        let is_hook = key.starts_with("before ") || key.starts_with("after ");
        let is_world = key == "world";
        match self {
            GateMode::None => false,
            GateMode::Steps => is_step,
            GateMode::Hooks => is_hook,
            GateMode::WorldNew => is_world,
            GateMode::All => is_step || is_hook || is_world,
            GateMode::Set(s) => s.contains(key),
        }
    }
}

/// The enumerated plan of one configuration.
#[derive(Clone, Debug)]
pub struct Plan {
    /// Outcome of the n-th invocation of a callable (default: last listed, or
    /// `Pass` if none listed).
    pub outcomes: BTreeMap<String, Vec<Outcome>>,
    /// Outcome of the n-th `World::new()` call (default `Ok`).
    pub world_new: Vec<WOutcome>,
    /// If set, every `World::new()` call beyond the list has this outcome.
    pub world_new_rest: WOutcome,
    pub gates: GateMode,
    /// Number of log events (tracing) emitted before / after the gate by
    /// callables (C20).
    pub logs_before: usize,
    pub logs_after: usize,
    /// Hooks and steps that are planned to panic do so synchronously, when
    /// they are *called* (before they return their future), not inside it.
    pub sync_panics: bool,
}

impl Default for Plan {
    fn default() -> Self {
        Plan {
            outcomes: BTreeMap::new(),
            world_new: Vec::new(),
            world_new_rest: WOutcome::Ok,
            gates: GateMode::None,
            logs_before: 0,
            logs_after: 0,
            sync_panics: false,
        }
    }
}

impl Plan {
    pub fn outcome(&self, key: &str, inv: usize) -> Outcome {
        match self.outcomes.get(key) {
            None => Outcome::Pass,
            Some(v) if v.is_empty() => Outcome::Pass,
            Some(v) => *v.get(inv).unwrap_or_else(|| v.last().unwrap()),
        }
    }
    pub fn world(&self, idx: usize) -> WOutcome {
        self.world_new.get(idx).copied().unwrap_or(self.world_new_rest)
    }
}

// ----------------------------------------------------------------------- log

#[derive(Clone, Debug, PartialEq, Eq)]
pub enum LogKind {
    /// `World::new()` entered (global index).
    NewEnter(usize),
    /// `World::new()` finished with the outcome.
    NewExit(usize, WOutcome),
    /// Callable entered: key, invocation index, world id, world counter,
    /// scenario stamp on the world.
    Enter {
        key: String,
        inv: usize,
        world: Option<usize>,
        counter: Option<usize>,
        stamp: Option<String>,
    },
    /// Callable about to finish with the outcome.
    Exit { key: String, inv: usize, outcome: Outcome },
    /// The harness released the gate with this label.
    Released(String),
    /// After hook's view of why the scenario finished.
    AfterReason { key: String, reason: String },
    /// Tracing log emitted (id).
    Emit { key: String, inv: usize, id: String },
    /// The harness parser delivered its i-th item.
    ParserDeliver(usize),
    /// The parser stream was polled again after it had ended.
    ParserPolledAfterEnd,
}

#[derive(Clone, Debug)]
pub struct LogEntry {
    pub kind: LogKind,
    /// Virtual time.
    pub vtime: Duration,
    /// Number of events the harness had pulled from the stream so far.
    pub events_seen: usize,
    /// Outer poll index.
    pub poll: usize,
}

// --------------------------------------------------------------------- gates

#[derive(Debug)]
pub struct GateState {
    pub label: String,
    pub released: bool,
    pub passed: bool,
    pub waker: Option<Waker>,
}

#[derive(Default)]
pub struct Hs {
    pub plan: Plan,
    pub invocations: BTreeMap<String, usize>,
    pub world_calls: usize,
    pub log: Vec<LogEntry>,
    pub gates: Vec<GateState>,
    pub events_seen: usize,
    pub poll: usize,
    /// Mid-poll release requests (L2): gate labels to release as soon as some
    /// harness-owned code runs after the named trigger count.
    pub progress: u64,
}

thread_local! {
    pub static HS: RefCell<Hs> = RefCell::new(Hs::default());
}

pub fn reset(plan: Plan) {
    HS.with(|h| {
        let mut h = h.borrow_mut();
        *h = Hs::default();
        h.plan = plan;
    });
}

pub fn vtime() -> Duration {
    cucumber::verif::clock_offset().unwrap_or_default()
}

pub fn log(kind: LogKind) {
    let vt = vtime();
    HS.with(|h| {
        let mut h = h.borrow_mut();
        let (events_seen, poll) = (h.events_seen, h.poll);
        h.log.push(LogEntry { kind, vtime: vt, events_seen, poll });
        h.progress += 1;
    });
}

/// Ids of the gates that are armed (created, polled at least once or not, and
/// not released yet), in creation order.
pub fn armed_gates() -> Vec<usize> {
    HS.with(|h| {
        h.borrow()
            .gates
            .iter()
            .enumerate()
            .filter(|(_, g)| !g.released)
            .map(|(i, _)| i)
            .collect()
    })
}

pub fn gate_label(id: usize) -> String {
    HS.with(|h| h.borrow().gates[id].label.clone())
}

pub fn release_gate(id: usize) {
    let w = HS.with(|h| {
        let mut h = h.borrow_mut();
        h.progress += 1;
        let g = &mut h.gates[id];
        g.released = true;
        g.waker.take()
    });
    if let Some(w) = w {
        w.wake();
    }
}

pub struct GateFuture {
    id: usize,
}

/// Creates a new armed gate.
pub fn gate(label: String) -> GateFuture {
    let id = HS.with(|h| {
        let mut h = h.borrow_mut();
        h.progress += 1;
        h.gates.push(GateState {
            label,
            released: false,
            passed: false,
            waker: None,
        });
        h.gates.len() - 1
    });
    GateFuture { id }
}

impl Future for GateFuture {
    type Output = ();
    fn poll(self: Pin<&mut Self>, cx: &mut TaskCx<'_>) -> Poll<()> {
        HS.with(|h| {
            let mut h = h.borrow_mut();
            let g = &mut h.gates[self.id];
            if g.released {
                g.passed = true;
                h.progress += 1;
                Poll::Ready(())
            } else {
                g.waker = Some(cx.waker().clone());
                Poll::Pending
            }
        })
    }
}

// --------------------------------------------------------------------- World

#[derive(Debug)]
pub struct TW {
    pub id: usize,
    pub counter: usize,
    pub stamp: Option<String>,
}

impl cucumber::World for TW {
    type Error = String;

    // the constructor does its bookkeeping when `new()` is *called*, not when the returned
    // future is first polled (a hand-written `fn new() -> impl Future`, as a user may write
    // it): a call the runner makes without needing a World counts as a creation
    #[allow(clippy::manual_async_fn)]
    fn new() -> impl Future<Output = Result<Self, String>> {
        let (idx, gated, outcome) = HS.with(|h| {
            let mut h = h.borrow_mut();
            let idx = h.world_calls;
            h.world_calls += 1;
            (idx, h.plan.gates.gated("world"), h.plan.world(idx))
        });
        log(LogKind::NewEnter(idx));
        if outcome == WOutcome::Panic && HS.with(|h| h.borrow().plan.sync_panics) {
            // (the constructor panics when it is called, before there is a future to poll)
            log(LogKind::NewExit(idx, outcome));
            std::panic::panic_any(format!("world-panic#{idx}"));
        }
        async move {
            if gated {
                gate(format!("world#{idx}")).await;
            }
            log(LogKind::NewExit(idx, outcome));
            match outcome {
                WOutcome::Ok => Ok(TW { id: idx, counter: 0, stamp: None }),
                WOutcome::Err => Err(format!("world-err#{idx}")),
                WOutcome::Panic => std::panic::panic_any(format!("world-panic#{idx}")),
            }
        }
    }
}

thread_local! {
    /// Emit the harness logs at WARN instead of INFO.
    pub static LOG_AT_WARN: std::cell::Cell<bool> = const { std::cell::Cell::new(false) };
}

fn emit_logs(_key: &str, _inv: usize, _phase: &str, n: usize) {
    for _i in 0..n {
        #[cfg(feature = "tracing")]
        {
            let id = format!("{_key}#{_inv}/{_phase}{_i}");
            log(LogKind::Emit {
                key: _key.to_owned(),
                inv: _inv,
                id: id.clone(),
            });
            if (_key.len() + _inv + _i) % 2 == 1 {
                // every other log is emitted on the callable's behalf by a helper thread,
                // with the callable's span as its explicit parent (the thread has no current
                // span of its own); the callable waits for it
                let span = tracing::Span::current();
                let dispatch = tracing::dispatcher::get_default(Clone::clone);
                let warn = LOG_AT_WARN.with(std::cell::Cell::get);
                std::thread::spawn(move || {
                    tracing::dispatcher::with_default(&dispatch, || {
                        if warn {
                            tracing::warn!(parent: &span, "[{id}] with__double__underscores {{braces}}");
                        } else {
                            tracing::info!(parent: &span, "[{id}] with__double__underscores {{braces}}");
                        }
                    });
                })
                .join()
                .expect("log helper thread");
            } else if LOG_AT_WARN.with(std::cell::Cell::get) {
                tracing::warn!("[{id}] with__double__underscores {{braces}}");
            } else {
                // (the text also carries the separator the collector frames messages with)
                tracing::info!("[{id}] with__double__underscores {{braces}}");
            }
        }
    }
}

/// What `begin()` decided for one invocation of a callable.
struct Begun {
    key: String,
    inv: usize,
    gated: bool,
    outcome: Outcome,
    logs_after: usize,
}

fn throw(outcome: Outcome, key: &str, inv: usize) {
    match outcome {
        Outcome::Pass => {}
        Outcome::PanicString => std::panic::panic_any(format!("boom {key}#{inv}")),
        Outcome::PanicStr => std::panic::panic_any("boom-static"),
        Outcome::PanicCustom => std::panic::panic_any(CustomPayload(format!("{key}#{inv}"))),
        Outcome::PanicOnThread => {
            let msg = format!("boom {key}#{inv}");
            let res = std::thread::spawn(move || {
                std::panic::panic_any(Box::<dyn std::error::Error + Send + Sync>::from(msg))
            })
            .join();
            if let Err(payload) = res {
                std::panic::resume_unwind(payload);
            }
        }
    }
}

/// First (synchronous) half of every step and hook: bookkeeping, and with
/// `Plan::sync_panics` the planned panic itself.
fn begin(key: String, world: Option<&mut TW>, reason: Option<String>) -> Begun {
    let (inv, gated, outcome, lb, la, sync) = HS.with(|h| {
        let mut h = h.borrow_mut();
        let c = h.invocations.entry(key.clone()).or_insert(0);
        let inv = *c;
        *c += 1;
        (
            inv,
            h.plan.gates.gated(&key),
            h.plan.outcome(&key, inv),
            h.plan.logs_before,
            h.plan.logs_after,
            h.plan.sync_panics,
        )
    });
    log(LogKind::Enter {
        key: key.clone(),
        inv,
        world: world.as_ref().map(|w| w.id),
        counter: world.as_ref().map(|w| w.counter),
        stamp: world.as_ref().and_then(|w| w.stamp.clone()),
    });
    if let Some(reason) = reason {
        log(LogKind::AfterReason { key: key.clone(), reason });
    }
    emit_logs(&key, inv, "b", lb);
    if sync && outcome.is_fail() {
        if let Some(w) = world {
            w.counter += 1;
        }
        log(LogKind::Exit { key: key.clone(), inv, outcome });
        throw(outcome, &key, inv);
    }
    Begun { key, inv, gated, outcome, logs_after: la }
}

/// Second half: the gate, then the planned outcome.
async fn finish(b: Begun, world: Option<&mut TW>) {
    if b.gated {
        gate(format!("{}#{}", b.key, b.inv)).await;
    }
    emit_logs(&b.key, b.inv, "a", b.logs_after);
    if let Some(w) = world {
        w.counter += 1;
    }
    log(LogKind::Exit { key: b.key.clone(), inv: b.inv, outcome: b.outcome });
    throw(b.outcome, &b.key, b.inv);
}

fn sync_mode() -> bool {
    HS.with(|h| h.borrow().plan.sync_panics)
}

/// The generic step function.
pub fn step_fn(w: &mut TW, ctx: Context) -> LocalBoxFuture<'_, ()> {
    let key = crate::spec::strip_lead(&ctx.step.value).to_owned();
    if sync_mode() {
        let b = begin(key, Some(&mut *w), None);
        return Box::pin(finish(b, Some(w)));
    }
    Box::pin(async move {
        let b = begin(key, Some(&mut *w), None);
        finish(b, Some(w)).await;
    })
}

/// A second, distinct step function (for ambiguity).
pub fn step_fn2(w: &mut TW, ctx: Context) -> LocalBoxFuture<'_, ()> {
    Box::pin(async move {
        let key = format!("{}!2", ctx.step.value);
        let b = begin(key, Some(&mut *w), None);
        finish(b, Some(w)).await;
    })
}

pub fn before_hook<'a>(
    _f: &'a gherkin::Feature,
    _r: Option<&'a gherkin::Rule>,
    s: &'a gherkin::Scenario,
    w: &'a mut TW,
) -> LocalBoxFuture<'a, ()> {
    let key = format!("before {}", s.name);
    if sync_mode() {
        w.stamp = Some(s.name.clone());
        let b = begin(key, Some(&mut *w), None);
        return Box::pin(finish(b, Some(w)));
    }
    Box::pin(async move {
        w.stamp = Some(s.name.clone());
        let b = begin(key, Some(&mut *w), None);
        finish(b, Some(w)).await;
    })
}

pub fn render_reason(ev: &ScenarioFinished) -> String {
    match ev {
        ScenarioFinished::BeforeHookFailed(info) => {
            format!("BeforeHookFailed({})", crate::canon::payload(info))
        }
        ScenarioFinished::StepPassed => "StepPassed".into(),
        ScenarioFinished::StepSkipped => "StepSkipped".into(),
        ScenarioFinished::StepFailed(_, _, err) => {
            format!("StepFailed({})", crate::canon::step_error(err))
        }
    }
}

pub fn after_hook<'a>(
    _f: &'a gherkin::Feature,
    _r: Option<&'a gherkin::Rule>,
    s: &'a gherkin::Scenario,
    ev: &'a ScenarioFinished,
    mut w: Option<&'a mut TW>,
) -> LocalBoxFuture<'a, ()> {
    let key = format!("after {}", s.name);
    if sync_mode() {
        let b = begin(key, w.as_deref_mut(), Some(render_reason(ev)));
        return Box::pin(finish(b, w));
    }
    Box::pin(async move {
        let b = begin(key, w.as_deref_mut(), Some(render_reason(ev)));
        finish(b, w).await;
    })
}
