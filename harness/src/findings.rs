//! Explanation predicates for known findings (see KNOWN_FINDINGS.txt).
//! A violation is attributed to a finding only if the predicate explains it.

use crate::{exec::Trace, oracles::Violation, spec::Config};

pub fn explain(_cfg: &Config, _tr: &Trace, _v: &Violation) -> Option<&'static str> {
    None
}

/// Does the stream contain a `Hook::Failed` in an attempt that is retried?
pub fn has_nonfinal_hook_failure(tr: &Trace) -> bool {
    use crate::canon::{Ev, HookEv, ScEv};
    tr.events.iter().any(|e| {
        matches!(
            &e.ev,
            Ev::Sc { retries: Some((_, left)), ev: ScEv::Hook(_, HookEv::Failed(..)), .. } if *left > 0
        )
    })
}

/// C01 `hook-failed-nonfinal-counted`: the run is reported failed, nothing
/// failed finally, and the stream has a hook failure in a retried attempt —
/// i.e. the verdict equals the reference recomputed with the single rule
/// "every `Hook::Failed` counts as a final failure".
pub fn explain_pipe(
    _cfg: &Config,
    tr: &Trace,
    v: &Violation,
    _stack: crate::pipe::Stack,
) -> Option<&'static str> {
    if matches!(v.key.as_str(), "false-failure" | "libtest-false-failure")
        && has_nonfinal_hook_failure(tr)
    {
        return Some("hook-failed-nonfinal-counted");
    }
    None
}
