//! Explanation predicates for known findings (see KNOWN_FINDINGS.txt).
//! A violation is attributed to a finding only if the predicate explains it.

use crate::{exec::Trace, oracles::Violation, spec::Config};

pub fn explain(_cfg: &Config, _tr: &Trace, _v: &Violation) -> Option<&'static str> {
    None
}
