//! C11: `writer::Normalize` against a boring reference normalizer, on every
//! linear extension of the happened-before order of small entity sets.

use std::collections::VecDeque;

use cucumber::{cli, writer::Normalize, WriterExt as _};
use serde_json::json;

use crate::{
    canon::{Ev, ScEv, StepEv},
    hs::TW,
    rec::{erase, feed, sc, Rec, Sources},
    spec::{FeatSpec, RuleSpec, ScenSpec, StepKind},
};

// ------------------------------------------------------------ reference model

#[derive(Clone, Debug)]
struct RAtt {
    key: (String, Option<(usize, usize)>),
    evs: VecDeque<Ev>,
}

#[derive(Clone, Debug)]
enum RItem {
    Rule { name: String, started: Option<Ev>, atts: Vec<RAtt>, finished: Option<Ev> },
    Att(RAtt),
}

#[derive(Clone, Debug)]
struct RFeat {
    name: String,
    started: Option<Ev>,
    items: Vec<RItem>,
    finished: Option<Ev>,
}

#[derive(Clone, Debug, Default)]
pub struct RefNorm {
    feats: Vec<RFeat>,
    finished: Option<Ev>,
    pub out: Vec<Ev>,
}

fn flush_att(a: &mut RAtt, out: &mut Vec<Ev>) -> bool {
    while let Some(e) = a.evs.pop_front() {
        let fin = matches!(e, Ev::Sc { ev: ScEv::Finished, .. });
        out.push(e);
        if fin {
            return true;
        }
    }
    false
}

impl RefNorm {
    pub fn handle(&mut self, ev: Ev) {
        match &ev {
            Ev::Started | Ev::ParsingFinished { .. } | Ev::ParseErr(_) => self.out.push(ev),
            Ev::Finished => self.finished = Some(ev),
            Ev::FeatStarted(f) => self.feats.push(RFeat {
                name: f.clone(),
                started: Some(ev.clone()),
                items: vec![],
                finished: None,
            }),
            Ev::FeatFinished(f) => {
                self.feats.iter_mut().find(|x| x.name == *f).expect("feature").finished = Some(ev.clone());
            }
            Ev::RuleStarted(f, r) => {
                self.feats.iter_mut().find(|x| x.name == *f).expect("feature").items.push(RItem::Rule {
                    name: r.clone(),
                    started: Some(ev.clone()),
                    atts: vec![],
                    finished: None,
                });
            }
            Ev::RuleFinished(f, r) => {
                let feat = self.feats.iter_mut().find(|x| x.name == *f).expect("feature");
                for it in &mut feat.items {
                    if let RItem::Rule { name, finished, .. } = it {
                        if name == r {
                            *finished = Some(ev.clone());
                        }
                    }
                }
            }
            Ev::Sc { f, r, s, retries, .. } => {
                let key = (s.clone(), *retries);
                let feat = self.feats.iter_mut().find(|x| x.name == *f).expect("feature");
                match r {
                    Some(r) => {
                        for it in &mut feat.items {
                            if let RItem::Rule { name, atts, .. } = it {
                                if name == r {
                                    match atts.iter_mut().find(|a| a.key == key) {
                                        Some(a) => a.evs.push_back(ev.clone()),
                                        None => atts.push(RAtt { key: key.clone(), evs: [ev.clone()].into() }),
                                    }
                                }
                            }
                        }
                    }
                    None => {
                        let found = feat.items.iter_mut().find_map(|it| match it {
                            RItem::Att(a) if a.key == key => Some(a),
                            _ => None,
                        });
                        match found {
                            Some(a) => a.evs.push_back(ev.clone()),
                            None => feat.items.push(RItem::Att(RAtt { key, evs: [ev.clone()].into() })),
                        }
                    }
                }
            }
        }
        self.flush();
    }

    fn flush(&mut self) {
        while let Some(feat) = self.feats.first_mut() {
            if let Some(s) = feat.started.take() {
                self.out.push(s);
            }
            // head items
            loop {
                let Some(item) = feat.items.first_mut() else { break };
                let done = match item {
                    RItem::Att(a) => flush_att(a, &mut self.out),
                    RItem::Rule { started, atts, finished, .. } => {
                        if let Some(s) = started.take() {
                            self.out.push(s);
                        }
                        while let Some(a) = atts.first_mut() {
                            if flush_att(a, &mut self.out) {
                                atts.remove(0);
                            } else {
                                break;
                            }
                        }
                        if atts.is_empty() && finished.is_some() {
                            self.out.push(finished.take().unwrap());
                            true
                        } else {
                            false
                        }
                    }
                };
                if done {
                    feat.items.remove(0);
                } else {
                    break;
                }
            }
            if feat.items.is_empty() && feat.finished.is_some() {
                let f = feat.finished.take().unwrap();
                self.out.push(f);
                self.feats.remove(0);
            } else {
                break;
            }
        }
        if let Some(f) = self.finished.take() {
            self.out.push(f);
        }
    }
}

// ---------------------------------------------------------------- entity sets

#[derive(Clone, Debug, PartialEq, Eq)]
pub struct ScenShape {
    /// 0: directly in the feature; 1 / 2: in the feature's first / second rule
    pub rule: usize,
    pub attempts: usize,
    /// events per attempt: 2 = Started, Finished; 3 = with one step result; 4 = with a log
    /// line and a step result; n >= 5 = with n - 2 step results (a long scenario)
    pub events: usize,
    /// the only attempt fails with a retry left and the retry never comes (a run cut by
    /// fail-fast, a skipped step rewritten by `fail_on_skipped` under retries)
    pub cut: bool,
    /// the only attempt carries the counter of an explicit budget of zero (`@retry(0)`):
    /// `Retries { current: 0, left: 0 }`, not "no retries"
    pub zero: bool,
}

#[derive(Clone, Debug)]
pub struct Shape {
    pub feats: Vec<Vec<ScenShape>>,
    pub parsing_finished: bool,
    pub parse_err: bool,
    /// the second feature (with its rule, scenarios and steps) is equal *by value* to
    /// the first one, a distinct entity only by identity (the same path-less feature
    /// delivered twice)
    pub twins: bool,
}

pub struct Poset {
    pub elems: Vec<Ev>,
    pub preds: Vec<Vec<usize>>,
    pub sources: Sources,
    pub twins: bool,
}

/// What an observer that sees values only makes of an event of the twin feature.
pub fn untwin(e: &Ev) -> Ev {
    let r = |s: &String| s.replacen("F2", "F1", 1);
    match e {
        Ev::FeatStarted(f) => Ev::FeatStarted(r(f)),
        Ev::FeatFinished(f) => Ev::FeatFinished(r(f)),
        Ev::RuleStarted(f, ru) => Ev::RuleStarted(r(f), r(ru)),
        Ev::RuleFinished(f, ru) => Ev::RuleFinished(r(f), r(ru)),
        Ev::Sc { f, r: ru, s, ptrs, retries, ev } => Ev::Sc {
            f: r(f),
            r: ru.as_ref().map(r),
            s: r(s),
            ptrs: *ptrs,
            retries: *retries,
            ev: match ev {
                ScEv::Step(bg, t, l, e) => ScEv::Step(*bg, r(t), *l, e.clone()),
                o => o.clone(),
            },
        },
        o => o.clone(),
    }
}

pub fn build_poset(shape: &Shape) -> Poset {
    // features for real gherkin sources
    let mut specs = Vec::new();
    for f in &shape.feats {
        let mk = |k: usize| -> Vec<ScenSpec> {
            f.iter()
                .filter(|s| s.rule == k)
                .map(|s| ScenSpec { tags: vec![], steps: vec![StepKind::Matched; s.events.saturating_sub(2).max(1)] })
                .collect()
        };
        let nrules = f.iter().map(|s| s.rule).max().unwrap_or(0);
        specs.push(FeatSpec {
            scenarios: mk(0),
            rules: (1..=nrules).map(|k| RuleSpec { tags: vec![], bg: vec![], scenarios: mk(k) }).collect(),
            ..Default::default()
        });
    }
    let mut sources = Sources::from_features(specs.iter().enumerate().map(|(i, f)| f.parse(i)).collect());
    if shape.twins {
        assert!(shape.feats.len() == 2 && shape.feats[0] == shape.feats[1]);
        use cucumber::event::Source;
        let twin = |k: &String| k.replacen("F2", "F1", 1);
        let f = Source::new((*sources.feats["F1"]).clone());
        sources.feats.insert("F2".into(), f);
        for k in sources.rules.keys().filter(|k| k.starts_with("F2")).cloned().collect::<Vec<_>>() {
            let v = Source::new((*sources.rules[&twin(&k)]).clone());
            sources.rules.insert(k, v);
        }
        for k in sources.scens.keys().filter(|k| k.starts_with("F2")).cloned().collect::<Vec<_>>() {
            let v = Source::new((*sources.scens[&twin(&k)]).clone());
            sources.scens.insert(k, v);
        }
        for k in sources.steps.keys().filter(|k| k.contains(" F2")).cloned().collect::<Vec<_>>() {
            let v = Source::new((*sources.steps[&twin(&k)]).clone());
            sources.steps.insert(k, v);
        }
    }
    let mut elems: Vec<Ev> = vec![Ev::Started];
    let mut preds: Vec<Vec<usize>> = vec![vec![]];
    let mut push = |ev: Ev, p: Vec<usize>, elems: &mut Vec<Ev>, preds: &mut Vec<Vec<usize>>| {
        elems.push(ev);
        preds.push(p);
        elems.len() - 1
    };
    let mut feat_finished = Vec::new();
    for (fi, f) in shape.feats.iter().enumerate() {
        let fname = format!("F{}", fi + 1);
        let fs = push(Ev::FeatStarted(fname.clone()), vec![0], &mut elems, &mut preds);
        let mut feat_last = vec![fs];
        let nrules = f.iter().map(|s| s.rule).max().unwrap_or(0);
        let rnames: Vec<String> = (1..=nrules).map(|k| format!("{fname}.R{k}")).collect();
        let rstart: Vec<usize> = rnames
            .iter()
            .map(|rn| push(Ev::RuleStarted(fname.clone(), rn.clone()), vec![fs], &mut elems, &mut preds))
            .collect();
        let mut rule_last: Vec<Vec<usize>> = rstart.iter().map(|r| vec![*r]).collect();
        let mut counters = vec![0usize; nrules + 1];
        for s in f {
            counters[s.rule] += 1;
            let n = counters[s.rule];
            let (sname, rule, start_pred) = if s.rule > 0 {
                (format!("{}.S{n}", rnames[s.rule - 1]), Some(rnames[s.rule - 1].as_str()), rstart[s.rule - 1])
            } else {
                (format!("{fname}.S{n}"), None, fs)
            };
            let step_text = format!("step {sname} 1");
            let mut prev = start_pred;
            for k in 0..s.attempts {
                let retries = if s.cut { Some((0, 1)) } else if s.zero { Some((0, 0)) } else { (s.attempts > 1).then(|| (k, s.attempts - 1 - k)) };
                let last_attempt = k + 1 == s.attempts && !s.cut;
                let mut seq = vec![ScEv::Started];
                if s.events == 4 {
                    // a log line emitted inside the scenario: an event like any other
                    seq.push(ScEv::Log(format!("log of {sname}")));
                }
                // (5 and more: a long scenario, `events - 2` step results of as many steps)
                let nsteps = if s.events >= 5 { s.events - 2 } else { usize::from(s.events >= 3) };
                for n in 1..=nsteps {
                    let text = if n == 2 {
                        format!("{}step {sname} {n}", crate::spec::LEAD)
                    } else {
                        format!("step {sname} {n}")
                    };
                    let res = if last_attempt || n < nsteps { StepEv::Passed } else { StepEv::Failed("boom".into(), None) };
                    seq.push(ScEv::Step(false, text, 0, res));
                }
                seq.push(ScEv::Finished);
                for e in seq {
                    prev = push(sc(&fname, rule, &sname, retries, e), vec![prev], &mut elems, &mut preds);
                }
            }
            if s.rule > 0 {
                rule_last[s.rule - 1].push(prev);
            } else {
                feat_last.push(prev);
            }
        }
        for (k, rn) in rnames.iter().enumerate() {
            let rf = push(Ev::RuleFinished(fname.clone(), rn.clone()), rule_last[k].clone(), &mut elems, &mut preds);
            feat_last.push(rf);
        }
        let ff = push(Ev::FeatFinished(fname.clone()), feat_last, &mut elems, &mut preds);
        feat_finished.push(ff);
    }
    let mut fin_preds = feat_finished;
    fin_preds.push(0);
    let mut err_idx = None;
    if shape.parse_err {
        let e = push(Ev::ParseErr("e1".into()), vec![], &mut elems, &mut preds);
        fin_preds.push(e);
        err_idx = Some(e);
    }
    if shape.parsing_finished {
        let nf = shape.feats.len();
        let p = push(
            Ev::ParsingFinished {
                features: nf,
                rules: 0,
                scenarios: 0,
                steps: 0,
                parser_errors: usize::from(shape.parse_err),
            },
            err_idx.into_iter().collect(),
            &mut elems,
            &mut preds,
        );
        fin_preds.push(p);
    }
    push(Ev::Finished, fin_preds, &mut elems, &mut preds);
    Poset { elems, preds, sources, twins: shape.twins }
}

/// All shapes whose total event weight is within `max_weight`.
pub fn shapes(max_weight: usize, max_feats: usize, max_scen: usize) -> Vec<Shape> {
    let mut scen_opts = Vec::new();
    for rule in [0usize, 1, 2] {
        for attempts in 1..=2 {
            for events in [2usize, 3] {
                scen_opts.push(ScenShape { rule, attempts, events, cut: false, zero: false });
            }
        }
    }
    // multisets of scenarios per feature (order matters only through in_rule grouping)
    fn feat_lists(opts: &[ScenShape], max: usize) -> Vec<Vec<ScenShape>> {
        let mut out = vec![];
        let mut cur: Vec<Vec<ScenShape>> = vec![vec![]];
        for _ in 0..max {
            let mut next = vec![];
            for p in &cur {
                for o in opts {
                    let mut q = p.clone();
                    q.push(o.clone());
                    next.push(q);
                }
            }
            out.extend(next.iter().cloned());
            cur = next;
        }
        out
    }
    let weight = |f: &Vec<ScenShape>| -> usize {
        2 + 2 * f.iter().map(|s| s.rule).max().unwrap_or(0)
            + f.iter().map(|s| s.attempts * s.events).sum::<usize>()
    };
    // a second rule only next to a first one (no empty rules)
    let fl: Vec<Vec<ScenShape>> = feat_lists(&scen_opts, max_scen)
        .into_iter()
        .filter(|f| !f.iter().any(|s| s.rule == 2) || f.iter().any(|s| s.rule == 1))
        .collect();
    let mut out = Vec::new();
    for a in &fl {
        if weight(a) <= max_weight {
            for (pf, pe) in [(false, false), (true, false), (true, true)] {
                let w = weight(a) + usize::from(pf) + usize::from(pe);
                if w <= max_weight {
                    out.push(Shape { feats: vec![a.clone()], parsing_finished: pf, parse_err: pe, twins: false });
                }
            }
        }
        if max_feats >= 2 {
            for b in &fl {
                if weight(a) + weight(b) <= max_weight {
                    out.push(Shape {
                        feats: vec![a.clone(), b.clone()],
                        parsing_finished: false,
                        parse_err: false,
                        twins: false,
                    });
                    if a == b {
                        out.push(Shape {
                            feats: vec![a.clone(), b.clone()],
                            parsing_finished: false,
                            parse_err: false,
                            twins: true,
                        });
                    }
                }
            }
        }
    }
    out
}

#[derive(Default)]
pub struct NormStats {
    pub nodes: usize,
    pub leaves: usize,
    pub shapes: usize,
    pub capped_shapes: usize,
    pub reordered_leaves: usize,
    pub violations: Vec<serde_json::Value>,
    pub samples: Vec<serde_json::Value>,
}

type NW = Normalize<TW, Rec>;

fn out_events(w: &NW) -> Vec<Ev> {
    w.inner_writer().events().iter().map(erase).collect()
}

#[allow(clippy::too_many_arguments)]
fn dfs(
    po: &Poset,
    done: &mut Vec<bool>,
    order: &mut Vec<usize>,
    w: &NW,
    r: &RefNorm,
    stats: &mut NormStats,
    node_cap: usize,
    shape_idx: usize,
) -> bool {
    stats.nodes += 1;
    if stats.nodes > node_cap {
        return false;
    }
    let n = po.elems.len();
    if order.len() == n {
        stats.leaves += 1;
        let input: Vec<Ev> =
            order.iter().map(|i| if po.twins { untwin(&po.elems[*i]) } else { po.elems[*i].clone() }).collect();
        let out = out_events(w);
        if out != input {
            stats.reordered_leaves += 1;
        }
        if !po.twins {
            // the declarative checks tell entities apart by name
            final_checks(&input, &out, order, shape_idx, stats);
        }
        if stats.samples.len() < 3 && out != input {
            stats.samples.push(json!({
                "shape": shape_idx,
                "input": input.iter().map(Ev::short).collect::<Vec<_>>(),
                "normalized": out.iter().map(Ev::short).collect::<Vec<_>>(),
            }));
        }
        return true;
    }
    for i in 0..n {
        if done[i] || po.preds[i].iter().any(|p| !done[*p]) {
            continue;
        }
        let mut w2 = w.clone();
        let mut r2 = r.clone();
        let fed = std::panic::catch_unwind(std::panic::AssertUnwindSafe(|| {
            feed(&mut w2, po.sources.realize(&po.elems[i]), &cli::Empty);
        }));
        if fed.is_err() {
            if stats.violations.len() < 20 {
                let mut hist: Vec<String> = order.iter().map(|j| po.elems[*j].short()).collect();
                hist.push(po.elems[i].short());
                stats.violations.push(json!({
                    "engine": "hist", "property": "C11", "key": "normalize-panicked",
                    "shape": shape_idx,
                    "order": order.iter().chain([&i]).collect::<Vec<_>>(),
                    "message": format!("Normalize panicked on call {} of a contract-abiding stream{}", hist.len(),
                        if po.twins { " (the second feature equals the first one by value)" } else { "" }),
                    "history": hist,
                }));
            }
            continue;
        }
        r2.handle(po.elems[i].clone());
        let got = out_events(&w2);
        let want: Vec<Ev> = if po.twins { r2.out.iter().map(untwin).collect() } else { r2.out.clone() };
        if got != want {
            if stats.violations.len() < 20 {
                let mut hist: Vec<String> = order.iter().map(|j| po.elems[*j].short()).collect();
                hist.push(po.elems[i].short());
                stats.violations.push(json!({
                    "engine": "hist", "property": "C11", "key": "forwarded-prefix",
                    "shape": shape_idx,
                    "order": order.iter().chain([&i]).collect::<Vec<_>>(),
                    "message": format!(
                        "after {} calls Normalize forwarded {:?} but the reference forwards {:?}{}",
                        hist.len(),
                        got.iter().map(Ev::short).collect::<Vec<_>>(),
                        want.iter().map(Ev::short).collect::<Vec<_>>(),
                        if po.twins { " (F2 is a distinct feature equal to F1 by value; names as an observer sees them)" } else { "" }
                    ),
                    "history": hist,
                }));
            }
            continue;
        }
        done[i] = true;
        order.push(i);
        let ok = dfs(po, done, order, &w2, &r2, stats, node_cap, shape_idx);
        order.pop();
        done[i] = false;
        if !ok {
            return false;
        }
    }
    true
}

/// Declarative checks on a complete output (independent of the reference).
fn final_checks(input: &[Ev], out: &[Ev], order: &[usize], shape_idx: usize, stats: &mut NormStats) {
    let mut bad: Option<String> = None;
    // same multiset
    let mut a: Vec<String> = input.iter().map(|e| format!("{e:?}")).collect();
    let mut b: Vec<String> = out.iter().map(|e| format!("{e:?}")).collect();
    a.sort();
    b.sort();
    if a != b {
        bad = Some("output is not a permutation of the input".into());
    }
    if out.last() != Some(&Ev::Finished) {
        bad = Some("run-Finished is not last".into());
    }
    // features contiguous; attempts contiguous; brackets nest
    let mut seen_feats: Vec<String> = vec![];
    let mut cur_feat: Option<String> = None;
    let mut cur_att: Option<(String, Option<(usize, usize)>)> = None;
    for e in out {
        if let Some(f) = e.feature_name() {
            if cur_feat.as_deref() != Some(f) {
                if seen_feats.iter().any(|x| x == f) {
                    bad = Some(format!("feature {f} is not contiguous"));
                }
                seen_feats.push(f.to_owned());
                cur_feat = Some(f.to_owned());
                if !matches!(e, Ev::FeatStarted(_)) {
                    bad = Some(format!("feature {f} does not open with Started"));
                }
            }
        }
        match e {
            Ev::Sc { s, retries, ev, .. } => {
                let key = (s.clone(), *retries);
                match (&cur_att, ev) {
                    (None, ScEv::Started) => cur_att = Some(key),
                    (Some(k), _) if *k == key => {
                        if *ev == ScEv::Finished {
                            cur_att = None;
                        }
                    }
                    _ => bad = Some(format!("attempt {s}{retries:?} is not contiguous")),
                }
            }
            Ev::FeatFinished(_) | Ev::RuleFinished(..) | Ev::RuleStarted(..) | Ev::FeatStarted(_) => {
                if cur_att.is_some() {
                    bad = Some("bracket event inside an attempt".into());
                }
            }
            _ => {}
        }
    }
    if let Some(msg) = bad {
        if stats.violations.len() < 20 {
            stats.violations.push(json!({
                "engine": "hist", "property": "C11", "key": "final-shape",
                "shape": shape_idx, "order": order,
                "message": msg,
                "history": input.iter().map(Ev::short).collect::<Vec<_>>(),
                "output": out.iter().map(Ev::short).collect::<Vec<_>>(),
            }));
        }
    }
}

pub fn tier_shapes(thorough: bool) -> Vec<Shape> {
    let mut v = if thorough { shapes(14, 2, 3) } else { shapes(12, 2, 2) };
    // three overlapping features (the middle one may stay idle while the third one buffers)
    let one = |rule: usize, attempts: usize, events: usize| vec![ScenShape { rule, attempts, events, cut: false, zero: false }];
    let mut three = vec![
        vec![one(0, 1, 2), one(0, 1, 2), one(0, 1, 2)],
        vec![one(0, 1, 2), one(1, 1, 2), one(0, 1, 2)],
    ];
    if thorough {
        three.push(vec![one(0, 1, 3), one(0, 1, 2), one(0, 2, 2)]);
        three.push(vec![one(1, 1, 2), one(0, 1, 2), one(1, 1, 2)]);
    }
    for feats in three {
        v.push(Shape { feats, parsing_finished: false, parse_err: false, twins: false });
    }
    // scenarios that log (Started, Log, step result, Finished), next to the events that are
    // forwarded at once
    for (pf, pe) in [(false, false), (true, false), (true, true)] {
        v.push(Shape { feats: vec![one(0, 1, 4)], parsing_finished: pf, parse_err: pe, twins: false });
        v.push(Shape { feats: vec![one(1, 2, 4)], parsing_finished: pf, parse_err: pe, twins: false });
    }
    v.push(Shape { feats: vec![one(0, 1, 4), one(0, 1, 4)], parsing_finished: false, parse_err: false, twins: false });
    // a long scenario (more events than any batch size a writer might use) buffered behind
    // a short one: in the feature, inside a rule, and in a second feature
    v.push(Shape { feats: vec![vec![one(0, 1, 2)[0].clone(), one(0, 1, 36)[0].clone()]], parsing_finished: false, parse_err: false, twins: false });
    v.push(Shape { feats: vec![vec![one(1, 1, 2)[0].clone(), one(1, 1, 36)[0].clone()]], parsing_finished: false, parse_err: false, twins: false });
    v.push(Shape { feats: vec![one(0, 1, 2), one(0, 1, 35)], parsing_finished: false, parse_err: false, twins: false });
    // features without any content (an empty bracket: Started, Finished) behind a feature
    // that is still running, one and two of them, and in front of it
    for feats in [
        vec![one(0, 1, 2), vec![]],
        vec![one(0, 1, 2), vec![], vec![]],
        vec![vec![], one(0, 1, 3)],
    ] {
        v.push(Shape { feats, parsing_finished: false, parse_err: false, twins: false });
    }
    // abandoned retries: at feature level, inside a rule, next to a complete scenario, before
    // another feature
    let cut = |rule: usize| ScenShape { rule, attempts: 1, events: 3, cut: true, zero: false };
    let ok = |rule: usize| ScenShape { rule, attempts: 1, events: 2, cut: false, zero: false };
    // a scenario whose only attempt carries `Retries { current: 0, left: 0 }` in front of
    // other content: in the feature, inside a rule, and in front of a second feature
    let zero = |rule: usize| ScenShape { rule, attempts: 1, events: 3, cut: false, zero: true };
    for feats in [vec![vec![zero(0), ok(0)]], vec![vec![zero(1), ok(1)]], vec![vec![zero(0)], vec![ok(0)]]] {
        v.push(Shape { feats, parsing_finished: false, parse_err: false, twins: false });
    }
    for feats in [
        vec![vec![cut(0)]],
        vec![vec![cut(1)]],
        vec![vec![cut(1), ok(0)]],
        vec![vec![cut(0), ok(1)]],
        vec![vec![cut(0)], vec![ok(0)]],
        vec![vec![cut(1)], vec![ok(0)]],
    ] {
        v.push(Shape { feats, parsing_finished: false, parse_err: false, twins: false });
    }
    v
}

pub fn run_shape(shape: &Shape, idx: usize, node_cap: usize, stats: &mut NormStats) {
    let po = build_poset(shape);
    let w: NW = Rec::default().normalized();
    let r = RefNorm::default();
    let mut done = vec![false; po.elems.len()];
    let mut order = Vec::new();
    let before = stats.nodes;
    stats.shapes += 1;
    let complete = dfs(&po, &mut done, &mut order, &w, &r, stats, before + node_cap, idx);
    if !complete {
        stats.capped_shapes += 1;
    }
}

/// Features that come into being one after the other (a lazy parser): every entity of
/// the earlier feature is gone before the next one is created, so the allocator may hand
/// the same addresses out again. Whatever identity `Normalize` keeps must not outlive the
/// entity. (Detection depends on the allocator reusing a block; a miss is silent, a hit
/// is a genuine loss of events.)
pub fn late_features(rounds: usize) -> Option<String> {
    let spec = FeatSpec {
        scenarios: vec![ScenSpec { tags: vec![], steps: vec![StepKind::Matched] }],
        ..Default::default()
    };
    let mut w: NW = Rec::default().normalized();
    let mut want: Vec<Ev> = vec![Ev::Started];
    feed(&mut w, Ok(cucumber::Event::new(cucumber::event::Cucumber::Started)), &cli::Empty);
    for k in 0..rounds {
        // a fresh feature, fed sequentially, then dropped with everything that refers to it
        let src = Sources::from_features(vec![spec.parse(k)]);
        let f = crate::spec::feat_name(k);
        let s = format!("{f}.S1");
        let evs = vec![
            Ev::FeatStarted(f.clone()),
            sc(&f, None, &s, None, ScEv::Started),
            sc(&f, None, &s, None, ScEv::Finished),
            Ev::FeatFinished(f.clone()),
        ];
        for e in &evs {
            feed(&mut w, src.realize(e), &cli::Empty);
        }
        want.extend(evs);
        drop(src);
    }
    feed(&mut w, Ok(cucumber::Event::new(cucumber::event::Cucumber::Finished)), &cli::Empty);
    want.push(Ev::Finished);
    let got = out_events(&w);
    (got != want).then(|| {
        let missing: Vec<String> = want.iter().filter(|e| !got.contains(e)).map(Ev::short).take(6).collect();
        format!(
            "{rounds} features created, fed sequentially and dropped one after the other: the inner writer saw {} of {} events; missing e.g. {missing:?}",
            got.len(),
            want.len()
        )
    })
}

/// Replays one recorded order of one shape, printing every step.
pub fn replay(thorough: bool, shape_idx: usize, order: &[usize]) -> i32 {
    let shapes = tier_shapes(thorough);
    let po = build_poset(&shapes[shape_idx]);
    let mut w: NW = Rec::default().normalized();
    let mut r = RefNorm::default();
    let mut bad = false;
    for i in order {
        let fed = std::panic::catch_unwind(std::panic::AssertUnwindSafe(|| {
            feed(&mut w, po.sources.realize(&po.elems[*i]), &cli::Empty);
        }));
        if fed.is_err() {
            println!("in  {}\n    Normalize PANICKED", po.elems[*i].short());
            return 1;
        }
        r.handle(po.elems[*i].clone());
        if po.twins {
            r.out = r.out.iter().map(untwin).collect();
        }
        let got = out_events(&w);
        println!("in  {}", po.elems[*i].short());
        println!("    real forwarded {} events, reference {}", got.len(), r.out.len());
        if got != r.out {
            println!("    MISMATCH\n    real: {:?}\n    ref:  {:?}",
                got.iter().map(Ev::short).collect::<Vec<_>>(),
                r.out.iter().map(Ev::short).collect::<Vec<_>>());
            bad = true;
        }
    }
    i32::from(bad)
}
