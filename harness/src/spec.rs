//! Configuration of one closed system: generated features, runner options,
//! plan; building the real runner stream out of it.

use std::{sync::Arc, time::Duration};

use cucumber::{
    event::Cucumber,
    feature::ExpandExamplesError,
    parser,
    runner::{self, basic::Cli as RunnerCli, Basic},
    step::Collection,
    Event, Runner as _, ScenarioType,
};
use futures::{
    stream::{self, LocalBoxStream},
    StreamExt as _,
};
use gherkin::GherkinEnv;
use regex::Regex;

use crate::hs::{self, gate, Plan, TW};

#[derive(Clone, Copy, Debug, PartialEq, Eq, Hash)]
pub enum StepKind {
    Matched,
    NoMatch,
    Ambiguous,
}

#[derive(Clone, Debug, Default)]
pub struct ScenSpec {
    pub tags: Vec<String>,
    pub steps: Vec<StepKind>,
}

#[derive(Clone, Debug, Default)]
pub struct RuleSpec {
    pub tags: Vec<String>,
    pub bg: Vec<StepKind>,
    pub scenarios: Vec<ScenSpec>,
}

#[derive(Clone, Debug, Default)]
pub struct FeatSpec {
    pub tags: Vec<String>,
    pub bg: Vec<StepKind>,
    pub scenarios: Vec<ScenSpec>,
    pub rules: Vec<RuleSpec>,
}

#[derive(Clone, Debug)]
pub enum Item {
    Feat(usize),
    Err(String),
}

#[derive(Clone, Copy, Debug, PartialEq, Eq)]
pub enum Gran {
    /// Releases only at quiescence.
    L0,
    /// Releases after any single outer poll.
    L1,
}

#[derive(Clone, Debug)]
pub struct Config {
    pub name: String,
    pub feats: Vec<FeatSpec>,
    pub items: Vec<Item>,
    pub lazy: bool,
    /// Also gate the end of the parser stream (only with `lazy`).
    pub lazy_end: bool,
    pub before: bool,
    pub after: bool,
    /// `None`: builder untouched (default 64); `Some(x)`: `.max_concurrent_scenarios(x)`.
    pub conc_builder: Option<Option<usize>>,
    pub conc_cli: Option<usize>,
    pub retries_builder: Option<usize>,
    pub retries_cli: Option<usize>,
    pub retry_after_builder: Option<Duration>,
    pub retry_after_cli: Option<Duration>,
    pub retry_filter_builder: Option<String>,
    pub retry_filter_cli: Option<String>,
    pub fail_fast_builder: bool,
    pub fail_fast_cli: bool,
    /// Use a custom `which_scenario` classifier: tag `solo` means serial.
    pub custom_which: bool,
    pub plan: Plan,
    pub gran: Gran,
    /// Deviation bound (`None` = full DFS).
    pub bound: Option<usize>,
    /// Number of free clock advances (of `clock_step`) allowed per execution.
    pub clock_budget: usize,
    pub clock_step: Duration,
    /// Allow one spurious poll at quiescence (L1 only).
    pub spurious: bool,
    /// C06: at quiescent points in-flight must equal min(limit, unfinished).
    pub expect_conservation: bool,
    /// Cap on executions for this configuration.
    pub max_execs: usize,
    /// Polls without observable change after which a self-waking task counts as quiescent.
    pub k_noprogress: usize,
    /// C20: the whole run is polled inside an outer user span.
    pub outer_span: bool,
    /// C20: the user's filter is `LevelFilter::WARN` and the harness logs at WARN.
    pub warn_filter: bool,
    /// The type-changing builder methods are applied in reverse order
    /// (`after`, `before`, `which_scenario` instead of `which_scenario`, `before`, `after`).
    pub reverse_builder: bool,
    /// A custom retry policy set through `.retry_options(f)`: scenarios tagged `pol` get
    /// two retries without delay, nothing else is retried (tags / CLI / builder ignored).
    pub retry_policy: bool,
    /// C20: a clone of the configured `Cucumber` stays alive while the run goes on.
    pub clone_alive: bool,
    /// Every delivered feature carries the same `path` (a parser that splits one file
    /// into several features).
    pub same_path: bool,
}

impl Default for Config {
    fn default() -> Self {
        Config {
            name: String::new(),
            feats: Vec::new(),
            items: Vec::new(),
            lazy: false,
            lazy_end: false,
            before: false,
            after: false,
            conc_builder: None,
            conc_cli: None,
            retries_builder: None,
            retries_cli: None,
            retry_after_builder: None,
            retry_after_cli: None,
            retry_filter_builder: None,
            retry_filter_cli: None,
            fail_fast_builder: false,
            fail_fast_cli: false,
            custom_which: false,
            plan: Plan::default(),
            gran: Gran::L0,
            bound: None,
            clock_budget: 0,
            clock_step: Duration::from_secs(5),
            spurious: false,
            expect_conservation: false,
            max_execs: 200_000,
            k_noprogress: 4,
            outer_span: false,
            warn_filter: false,
            reverse_builder: false,
            retry_policy: false,
            clone_alive: false,
            same_path: false,
        }
    }
}

// ----------------------------------------------------------- text generation

pub fn feat_name(i: usize) -> String {
    format!("F{}", i + 1)
}

/// Lead-in some matched step texts carry in front of the part the definition matches (the
/// main pattern is not anchored at the start for them): capture offsets are then far from 0.
pub const LEAD: &str = "a long lead-in that is no part of the match: ";

/// A step text without its lead-in (the key the harness callables log).
pub fn strip_lead(s: &str) -> &str {
    s.strip_prefix(LEAD).unwrap_or(s)
}

fn step_text(kind: StepKind, prefix: &str, owner: &str, n: usize) -> String {
    match kind {
        // rule-background steps and every second own step carry the lead-in
        StepKind::Matched if prefix == "rbg" || (prefix == "step" && n == 2) => {
            format!("{LEAD}{prefix} {owner} {n}")
        }
        StepKind::Matched => format!("{prefix} {owner} {n}"),
        StepKind::NoMatch => format!("nomatch-{prefix} {owner} {n}"),
        StepKind::Ambiguous => format!("ambig-{prefix} {owner} {n}"),
    }
}

/// Keyword of the n-th (0-based) own step of a scenario: all three step types and the
/// conjunctions (`And` / `But` / `*` continue the previous type).
pub fn step_keyword(n: usize) -> &'static str {
    ["Given", "When", "And", "Then", "But", "*"][n % 6]
}

fn tags_line(indent: &str, tags: &[String]) -> String {
    if tags.is_empty() {
        String::new()
    } else {
        format!(
            "{indent}{}\n",
            tags.iter().map(|t| format!("@{t}")).collect::<Vec<_>>().join(" ")
        )
    }
}

impl FeatSpec {
    pub fn text(&self, i: usize) -> String {
        let fname = feat_name(i);
        let mut out = String::new();
        out += &tags_line("", &self.tags);
        out += &format!("Feature: {fname}\n");
        // `@empty-bg` on the feature: a `Background:` section is declared even where it has
        // no steps (feature level and in every rule)
        let empty_bg = self.tags.iter().any(|t| t == "empty-bg");
        if self.bg.is_empty() && empty_bg {
            out += "  Background:\n";
        }
        if !self.bg.is_empty() {
            out += "  Background:\n";
            for (n, k) in self.bg.iter().enumerate() {
                out += &format!("    {} {}\n", if n == 0 { "Given" } else { "And" }, step_text(*k, "bg", &fname, n + 1));
            }
        }
        // `@outline-pair` on the feature: its first two scenarios are the two rows of one
        // Scenario Outline (second `Examples:` block tagged `@serial`), expanded by `parse()`
        let pair = self.tags.iter().any(|t| t == "outline-pair");
        if pair {
            assert!(self.scenarios.len() >= 2 && self.scenarios[0].steps == self.scenarios[1].steps);
            assert!(self.scenarios[0].tags.is_empty() && self.scenarios[1].tags == ["serial"]);
            let owner = format!("{fname}.S<n>");
            out += &format!("  Scenario Outline: {owner}\n");
            for (n, k) in self.scenarios[0].steps.iter().enumerate() {
                out += &format!("    {} {}\n", step_keyword(n), step_text(*k, "step", &owner, n + 1));
            }
            out += "    Examples:\n      | n |\n      | 1 |\n    @serial\n    Examples:\n      | n |\n      | 2 |\n";
        }
        for (j, s) in self.scenarios.iter().enumerate() {
            if pair && j < 2 {
                continue;
            }
            let sname = format!("{fname}.S{}", j + 1);
            out += &tags_line("  ", &s.tags);
            out += &format!("  Scenario: {sname}\n");
            for (n, k) in s.steps.iter().enumerate() {
                out += &format!("    {} {}\n", step_keyword(n), step_text(*k, "step", &sname, n + 1));
            }
        }
        for (k, r) in self.rules.iter().enumerate() {
            let rname = format!("{fname}.R{}", k + 1);
            out += &tags_line("  ", &r.tags);
            // `@twin-rules` on the feature: all its rules carry one and the same name,
            // `@unnamed-rules`: none has a name (the harness tells them apart by position)
            if self.tags.iter().any(|t| t == "twin-rules") {
                out += &format!("  Rule: {fname}.R\n");
            } else if self.tags.iter().any(|t| t == "unnamed-rules") {
                out += "  Rule:\n";
            } else {
                out += &format!("  Rule: {rname}\n");
            }
            if r.bg.is_empty() && empty_bg {
                out += "    Background:\n";
            }
            if !r.bg.is_empty() {
                out += "    Background:\n";
                for (n, kd) in r.bg.iter().enumerate() {
                    out += &format!("      {} {}\n", if n == 0 { "Given" } else { "But" }, step_text(*kd, "rbg", &rname, n + 1));
                }
            }
            for (j, s) in r.scenarios.iter().enumerate() {
                let sname = format!("{rname}.S{}", j + 1);
                out += &tags_line("    ", &s.tags);
                out += &format!("    Scenario: {sname}\n");
                for (n, kd) in s.steps.iter().enumerate() {
                    out += &format!("      {} {}\n", step_keyword(n), step_text(*kd, "step", &sname, n + 1));
                }
            }
        }
        out
    }

    pub fn parse(&self, i: usize) -> gherkin::Feature {
        let text = self.text(i);
        let f = gherkin::Feature::parse(&text, GherkinEnv::default())
            .unwrap_or_else(|e| panic!("generated feature does not parse: {e}\n{text}"));
        if self.tags.iter().any(|t| t == "outline-pair") {
            use cucumber::feature::Ext as _;
            return f.expand_examples().expect("outline expansion");
        }
        f
    }
}

// ------------------------------------------------ expanded reference listing

/// One user callable of a scenario, in declaration order.
#[derive(Clone, Debug)]
pub struct CallSpec {
    pub key: String,
    pub text: String,
    pub is_bg: bool,
    pub kind: StepKind,
}

/// Flat description of one scenario of the configuration (reference side).
#[derive(Clone, Debug)]
pub struct ScenInfo {
    pub feat_idx: usize,
    pub feature: String,
    pub rule: Option<String>,
    pub name: String,
    /// scenario tags, then rule tags, then feature tags
    pub tags_sc: Vec<String>,
    pub tags_rule: Vec<String>,
    pub tags_feat: Vec<String>,
    pub calls: Vec<CallSpec>,
    pub own_steps: usize,
}

impl ScenInfo {
    pub fn all_tags(&self) -> impl Iterator<Item = &String> {
        self.tags_sc.iter().chain(&self.tags_rule).chain(&self.tags_feat)
    }
    pub fn has_tag(&self, t: &str) -> bool {
        self.all_tags().any(|x| x == t)
    }
}

impl Config {
    pub fn scen_infos(&self) -> Vec<ScenInfo> {
        let mut out = Vec::new();
        for (i, f) in self.feats.iter().enumerate() {
            let fname = feat_name(i);
            let bg_calls: Vec<CallSpec> = f
                .bg
                .iter()
                .enumerate()
                .map(|(n, k)| {
                    let text = step_text(*k, "bg", &fname, n + 1);
                    CallSpec { key: strip_lead(&text).to_owned(), text, is_bg: true, kind: *k }
                })
                .collect();
            for (j, s) in f.scenarios.iter().enumerate() {
                let sname = format!("{fname}.S{}", j + 1);
                let mut calls = bg_calls.clone();
                for (n, k) in s.steps.iter().enumerate() {
                    let text = step_text(*k, "step", &sname, n + 1);
                    calls.push(CallSpec { key: strip_lead(&text).to_owned(), text, is_bg: false, kind: *k });
                }
                out.push(ScenInfo {
                    feat_idx: i,
                    feature: fname.clone(),
                    rule: None,
                    name: sname,
                    tags_sc: s.tags.clone(),
                    tags_rule: vec![],
                    tags_feat: f.tags.clone(),
                    calls,
                    own_steps: s.steps.len(),
                });
            }
            for (k, r) in f.rules.iter().enumerate() {
                let rname = format!("{fname}.R{}", k + 1);
                let mut rbg = bg_calls.clone();
                for (n, kd) in r.bg.iter().enumerate() {
                    let text = step_text(*kd, "rbg", &rname, n + 1);
                    rbg.push(CallSpec { key: strip_lead(&text).to_owned(), text, is_bg: true, kind: *kd });
                }
                for (j, s) in r.scenarios.iter().enumerate() {
                    let sname = format!("{rname}.S{}", j + 1);
                    let mut calls = rbg.clone();
                    for (n, kd) in s.steps.iter().enumerate() {
                        let text = step_text(*kd, "step", &sname, n + 1);
                        calls.push(CallSpec { key: strip_lead(&text).to_owned(), text, is_bg: false, kind: *kd });
                    }
                    out.push(ScenInfo {
                        feat_idx: i,
                        feature: fname.clone(),
                        rule: Some(rname.clone()),
                        name: sname,
                        tags_sc: s.tags.clone(),
                        tags_rule: r.tags.clone(),
                        tags_feat: f.tags.clone(),
                        calls,
                        own_steps: s.steps.len(),
                    });
                }
            }
        }
        out
    }

    /// Effective concurrency limit as the property states it.
    pub fn limit(&self) -> Option<usize> {
        match (self.conc_cli, self.conc_builder) {
            (Some(c), _) => Some(c),
            (None, Some(b)) => b,
            (None, None) => Some(64),
        }
    }

    pub fn fail_fast(&self) -> bool {
        self.fail_fast_builder || self.fail_fast_cli
    }

    pub fn describe(&self) -> String {
        let mut s = format!("config {}\n", self.name);
        for (i, f) in self.feats.iter().enumerate() {
            s += &format!("--- feature #{i}\n{}", f.text(i));
        }
        s += &format!(
            "items={:?} lazy={} lazy_end={} before={} after={} conc_builder={:?} conc_cli={:?} \
             retries_builder={:?} retries_cli={:?} retry_after_builder={:?} retry_after_cli={:?} \
             retry_filter_builder={:?} retry_filter_cli={:?} ff_builder={} ff_cli={} custom_which={} \
             gran={:?} bound={:?} clock_budget={} clock_step={:?} spurious={}\nplan={:?}\n",
            self.items, self.lazy, self.lazy_end, self.before, self.after, self.conc_builder,
            self.conc_cli, self.retries_builder, self.retries_cli, self.retry_after_builder,
            self.retry_after_cli, self.retry_filter_builder, self.retry_filter_cli,
            self.fail_fast_builder, self.fail_fast_cli, self.custom_which, self.gran, self.bound,
            self.clock_budget, self.clock_step, self.spurious, self.plan
        );
        s
    }
}

// -------------------------------------------------------------- real objects

pub fn collection() -> Collection<TW> {
    // (compiled once per thread: compiling dominates the cost of an execution otherwise)
    thread_local! {
        static COMPILED: std::cell::RefCell<std::collections::HashMap<&'static str, Regex>> =
            std::cell::RefCell::new(std::collections::HashMap::new());
    }
    let re = |p: &'static str| {
        COMPILED.with(|c| c.borrow_mut().entry(p).or_insert_with(|| Regex::new(p).unwrap()).clone())
    };
    let loc = |line| Some(cucumber::step::Location { path: "harness.rs", line, column: 1 });
    let (main, wide, amb) =
        (r"(?:^x?|: )(step|bg|rbg) (\S+) (\d+)$", r"^ambig-x?\S+ .*$", r"^a?ambig-(step|bg|rbg) (\S+) (\d+)$");
    // the same definitions under all three step types (steps use every keyword); the
    // ambiguous pattern text at two locations: two definitions, not one
    Collection::new()
        .given(None, re(main), hs::step_fn)
        .given(None, re(wide), hs::step_fn)
        .given(loc(1), re(amb), hs::step_fn2)
        .given(loc(2), re(amb), hs::step_fn2)
        .when(None, re(main), hs::step_fn)
        .when(None, re(wide), hs::step_fn)
        .when(loc(1), re(amb), hs::step_fn2)
        .when(loc(2), re(amb), hs::step_fn2)
        .then(None, re(main), hs::step_fn)
        .then(None, re(wide), hs::step_fn)
        .then(loc(1), re(amb), hs::step_fn2)
        .then(loc(2), re(amb), hs::step_fn2)
}

pub fn parser_error(tag: &str) -> parser::Error {
    parser::Error::ExampleExpansion(Arc::new(ExpandExamplesError {
        pos: gherkin::LineCol { line: 1, col: 1 },
        name: tag.to_owned(),
        path: None,
    }))
}

pub type RawItem = parser::Result<Event<Cucumber<TW>>>;
pub type EvStream = LocalBoxStream<'static, parser::Result<Event<Cucumber<TW>>>>;

/// The harness-owned parser output.
pub fn parser_stream(
    cfg: &Config,
) -> LocalBoxStream<'static, parser::Result<gherkin::Feature>> {
    let items: Vec<parser::Result<gherkin::Feature>> = cfg
        .items
        .iter()
        .map(|it| match it {
            Item::Feat(i) => {
                let mut f = cfg.feats[*i].parse(*i);
                if cfg.same_path {
                    f.path = Some(std::path::PathBuf::from("features/all in one.feature"));
                }
                Ok(f)
            }
            Item::Err(tag) => Err(parser_error(tag)),
        })
        .collect();
    let lazy = cfg.lazy;
    let lazy_end = cfg.lazy && cfg.lazy_end;
    let n = items.len();
    let body = stream::iter(items.into_iter().enumerate()).then(move |(i, it)| async move {
        if lazy {
            gate(format!("parse#{i}")).await;
        }
        hs::log(hs::LogKind::ParserDeliver(i));
        it
    });
    let inner: LocalBoxStream<'static, parser::Result<gherkin::Feature>> = if lazy_end {
        body.chain(
            stream::once(async move {
                gate(format!("parse#end{n}")).await;
                None
            })
            .filter_map(|x: Option<parser::Result<gherkin::Feature>>| async move { x }),
        )
        .boxed_local()
    } else {
        body.boxed_local()
    };
    StrictEnd { inner, ended: false }.boxed_local()
}

/// A parser stream is not obliged to be fused: polled again after it has
/// ended, this one never answers again (and the poll is logged).
struct StrictEnd {
    inner: LocalBoxStream<'static, parser::Result<gherkin::Feature>>,
    ended: bool,
}

impl futures::Stream for StrictEnd {
    type Item = parser::Result<gherkin::Feature>;
    fn poll_next(
        mut self: std::pin::Pin<&mut Self>,
        cx: &mut std::task::Context<'_>,
    ) -> std::task::Poll<Option<Self::Item>> {
        if self.ended {
            hs::log(hs::LogKind::ParserPolledAfterEnd);
            return std::task::Poll::Pending;
        }
        let r = self.inner.poll_next_unpin(cx);
        if matches!(r, std::task::Poll::Ready(None)) {
            self.ended = true;
        }
        r
    }
}

fn custom_which(
    f: &gherkin::Feature,
    r: Option<&gherkin::Rule>,
    s: &gherkin::Scenario,
) -> ScenarioType {
    if s.tags
        .iter()
        .chain(r.iter().flat_map(|r| &r.tags))
        .chain(&f.tags)
        .any(|t| t == "solo")
        // (and by shape: a scenario with exactly three own steps, whatever its tags)
        || s.steps.len() == 3
    {
        ScenarioType::Serial
    } else {
        ScenarioType::Concurrent
    }
}

pub fn runner_cli(cfg: &Config) -> RunnerCli {
    if cfg.name.len() % 4 == 3 {
        // a quarter of the configurations hand their CLI options over as a command line
        // parsed by clap (options that are not given stay unset), not as a struct literal
        let mut args: Vec<String> = vec!["prog".into()];
        if let Some(c) = cfg.conc_cli {
            args.extend(["--concurrency".into(), c.to_string()]);
        }
        if cfg.fail_fast_cli {
            args.push("--fail-fast".into());
        }
        if let Some(r) = cfg.retries_cli {
            args.extend(["--retry".into(), r.to_string()]);
        }
        if let Some(d) = cfg.retry_after_cli {
            args.extend(["--retry-after".into(), format!("{}us", d.as_micros())]);
        }
        if let Some(f) = &cfg.retry_filter_cli {
            args.extend(["--retry-tag-filter".into(), f.clone()]);
        }
        type O = cucumber::cli::Opts<cucumber::cli::Empty, RunnerCli, cucumber::cli::Empty, cucumber::cli::Empty>;
        return <O as clap::Parser>::try_parse_from(args).expect("command line").runner;
    }
    RunnerCli {
        concurrency: cfg.conc_cli,
        fail_fast: cfg.fail_fast_cli,
        retry: cfg.retries_cli,
        retry_after: cfg.retry_after_cli,
        retry_tag_filter: cfg
            .retry_filter_cli
            .as_ref()
            .map(|s| s.parse().expect("tag expr")),
    }
}

macro_rules! with_runner {
    ($cfg:expr, |$r:ident| $body:expr) => {{
        let cfg: &Config = $cfg;
        let mut base = Basic::<TW>::default();
        if let Some(c) = cfg.conc_builder {
            base = base.max_concurrent_scenarios(c);
        }
        if let Some(n) = cfg.retries_builder {
            base = base.retries(n);
        }
        if let Some(d) = cfg.retry_after_builder {
            base = base.retry_after(d);
        }
        if let Some(f) = cfg.retry_filter_builder.as_ref() {
            base = base.retry_filter(
                f.parse::<gherkin::tagexpr::TagOperation>().expect("tag expr"),
            );
        }
        if cfg.fail_fast_builder {
            base = base.fail_fast();
        }
        if cfg.retry_policy {
            base = base.retry_options($crate::spec::retry_policy_fn);
        }
        let base = base.steps($crate::spec::collection());
        match (cfg.before, cfg.after, cfg.custom_which, cfg.reverse_builder) {
            (false, false, false, _) => { let $r = base; $body }
            (true, false, false, _) => { let $r = base.before($crate::hs::before_hook); $body }
            (false, true, false, _) => { let $r = base.after($crate::hs::after_hook); $body }
            (true, true, false, false) => {
                let $r = base.before($crate::hs::before_hook).after($crate::hs::after_hook);
                $body
            }
            (true, true, false, true) => {
                let $r = base.after($crate::hs::after_hook).before($crate::hs::before_hook);
                $body
            }
            (false, false, true, _) => { let $r = base.which_scenario($crate::spec::custom_which_fn()); $body }
            (true, false, true, false) => {
                let $r = base.which_scenario($crate::spec::custom_which_fn()).before($crate::hs::before_hook);
                $body
            }
            (true, false, true, true) => {
                let $r = base.before($crate::hs::before_hook).which_scenario($crate::spec::custom_which_fn());
                $body
            }
            (false, true, true, false) => {
                let $r = base.which_scenario($crate::spec::custom_which_fn()).after($crate::hs::after_hook);
                $body
            }
            (false, true, true, true) => {
                let $r = base.after($crate::hs::after_hook).which_scenario($crate::spec::custom_which_fn());
                $body
            }
            (true, true, true, false) => {
                let $r = base
                    .which_scenario($crate::spec::custom_which_fn())
                    .before($crate::hs::before_hook)
                    .after($crate::hs::after_hook);
                $body
            }
            (true, true, true, true) => {
                let $r = base
                    .after($crate::hs::after_hook)
                    .before($crate::hs::before_hook)
                    .which_scenario($crate::spec::custom_which_fn());
                $body
            }
        }
    }};
}
pub(crate) use with_runner;

/// The custom retry policy of `Config::retry_policy`.
pub fn retry_policy_fn(
    feature: &gherkin::Feature,
    rule: Option<&gherkin::Rule>,
    scenario: &gherkin::Scenario,
    _cli: &RunnerCli,
) -> Option<runner::basic::RetryOptions> {
    let tagged = scenario
        .tags
        .iter()
        .chain(rule.iter().flat_map(|r| &r.tags))
        .chain(&feature.tags)
        .any(|t| t == "pol");
    tagged.then(|| runner::basic::RetryOptions {
        retries: cucumber::event::Retries { current: 0, left: 2 },
        after: None,
    })
}

pub fn custom_which_fn() -> runner::basic::WhichScenarioFn {
    custom_which
}

/// Builds the real `runner::Basic` event stream of the configuration.
pub fn build_stream(cfg: &Config) -> EvStream {
    let input = parser_stream(cfg);
    let cli = runner_cli(cfg);
    // every other configuration runs a clone of the runner it built (users keep a template
    // around and run clones of it)
    if cfg.name.len() % 2 == 0 {
        with_runner!(cfg, |r| r.clone().run(input, cli))
    } else {
        with_runner!(cfg, |r| r.run(input, cli))
    }
}
