//! C18 (pure part): `RetryOptions::parse_from_tags` against the precedence
//! written in the property, on the complete product of tag placements x CLI.

use std::time::Duration;

use cucumber::runner::basic::{Cli, RetryOptions};
use serde_json::json;

use crate::{
    hist::ShardArgs,
    refm::{resolve_retry, RetrySources, TagExpr},
    spec::{FeatSpec, RuleSpec, ScenSpec, StepKind},
};

pub const RETRY_TAGS: [Option<&str>; 8] = [
    None,
    Some("retry"),
    Some("retry(3)"),
    Some("retry.after(2s)"),
    Some("retry(3).after(2s)"),
    Some("retry(10)"),
    Some("retry(0).after(0s)"),
    // not a retry tag
    Some("retryable"),
];
pub const FILTERS: [Option<&str>; 4] = [None, Some("@x"), Some("not @x"), Some("@x and @y")];

#[derive(Clone, Debug)]
pub struct Case {
    pub sc: usize,
    pub rule: usize,
    pub feat: usize,
    pub with_rule: bool,
    pub cli_retry: Option<usize>,
    pub cli_after: Option<Duration>,
    pub filter: usize,
    /// where tag x sits: 0 none, 1 scenario, 2 rule, 3 feature
    pub x_at: usize,
    pub y_on_scenario: bool,
    /// a look-alike tag (`retryable`) written before the genuine retry tag of each level
    pub decoy_first: bool,
}

pub fn cases() -> Vec<Case> {
    let mut v = Vec::new();
    for sc in 0..RETRY_TAGS.len() {
        for rule in 0..RETRY_TAGS.len() {
            for feat in 0..RETRY_TAGS.len() {
                for with_rule in [false, true] {
                    if !with_rule && rule != 0 {
                        continue;
                    }
                    for cli_retry in [None, Some(5usize), Some(0)] {
                        for cli_after in [None, Some(Duration::from_secs(7))] {
                            for filter in 0..4 {
                                for x_at in 0..4 {
                                    if x_at == 2 && !with_rule {
                                        continue;
                                    }
                                    for y in [false, true] {
                                        if filter == 0 && (x_at != 0 || y) {
                                            continue;
                                        }
                                        for decoy_first in [false, true] {
                                            // (only where some level carries a genuine retry tag)
                                            let genuine = |k: usize| (1..=6).contains(&k);
                                            if decoy_first
                                                && (!(genuine(sc) || genuine(rule) || genuine(feat)) || filter != 0)
                                            {
                                                continue;
                                            }
                                            v.push(Case {
                                                sc,
                                                rule,
                                                feat,
                                                with_rule,
                                                cli_retry,
                                                cli_after,
                                                filter,
                                                x_at,
                                                y_on_scenario: y,
                                                decoy_first,
                                            });
                                        }
                                    }
                                }
                            }
                        }
                    }
                }
            }
        }
    }
    v
}

fn tags(retry: usize, x: bool, y: bool, decoy_first: bool) -> Vec<String> {
    let mut t = Vec::new();
    if x {
        t.push("x".to_owned());
    }
    if let Some(r) = RETRY_TAGS[retry] {
        if decoy_first && (1..=6).contains(&retry) {
            t.push("retryable".to_owned());
        }
        t.push(r.to_owned());
    }
    if y {
        t.push("y".to_owned());
    }
    t
}

pub fn check(c: &Case) -> Option<String> {
    let sc_tags = tags(c.sc, c.x_at == 1, c.y_on_scenario, c.decoy_first);
    let rule_tags = tags(c.rule, c.x_at == 2, false, c.decoy_first);
    let feat_tags = tags(c.feat, c.x_at == 3, false, c.decoy_first);
    let s = ScenSpec { tags: sc_tags.clone(), steps: vec![StepKind::Matched] };
    let spec = if c.with_rule {
        FeatSpec {
            tags: feat_tags.clone(),
            rules: vec![RuleSpec { tags: rule_tags.clone(), bg: vec![], scenarios: vec![s] }],
            ..Default::default()
        }
    } else {
        FeatSpec { tags: feat_tags.clone(), scenarios: vec![s], ..Default::default() }
    };
    let f = spec.parse(0);
    let (rule, scen) = if c.with_rule {
        (Some(&f.rules[0]), &f.rules[0].scenarios[0])
    } else {
        (None, &f.scenarios[0])
    };
    let cli = Cli {
        concurrency: None,
        fail_fast: false,
        retry: c.cli_retry,
        retry_after: c.cli_after,
        retry_tag_filter: FILTERS[c.filter].map(|s| s.parse().expect("tagexpr")),
    };
    let got = RetryOptions::parse_from_tags(&f, rule, scen, &cli)
        .map(|r| ((r.retries.current, r.retries.left), r.after));
    let src = RetrySources {
        cli_retry: c.cli_retry,
        cli_after: c.cli_after,
        cli_filter: FILTERS[c.filter].map(TagExpr::parse),
        ..Default::default()
    };
    let want = resolve_retry(
        &sc_tags,
        if c.with_rule { &rule_tags } else { &[] },
        &feat_tags,
        &src,
    )
    .map(|(n, after)| ((0usize, n), after));
    (got != want).then(|| {
        format!(
            "tags scenario {sc_tags:?} rule {:?} feature {feat_tags:?}, --retry {:?} --retry-after {:?} --retry-tag-filter {:?}: resolved {got:?}, expected {want:?}",
            c.with_rule.then_some(&rule_tags),
            c.cli_retry,
            c.cli_after,
            FILTERS[c.filter]
        )
    })
}

pub fn run(a: &ShardArgs) -> serde_json::Value {
    let cs = cases();
    let mut evaluations = 0usize;
    let mut nontrivial = 0usize;
    let mut violations = Vec::new();
    let mut samples = Vec::new();
    for (i, c) in cs.iter().enumerate() {
        if !a.mine(i) {
            continue;
        }
        evaluations += 1;
        // non-trivial: at least two sources compete
        let sources = usize::from(c.sc != 0)
            + usize::from(c.rule != 0)
            + usize::from(c.feat != 0)
            + usize::from(c.cli_retry.is_some() || c.cli_after.is_some())
            + usize::from(c.filter != 0);
        if sources >= 2 {
            nontrivial += 1;
        }
        if let Some(msg) = check(c) {
            if violations.len() < 30 {
                violations.push(json!({
                    "engine": "hist", "property": "C18", "tier": a.tier, "key": "resolution",
                    "case_index": i, "message": msg,
                }));
            }
        }
        if samples.len() < 3 && sources >= 3 && i % 211 == 0 {
            samples.push(json!({"case": format!("{c:?}")}));
        }
    }
    // end to end: the merged builder / CLI values as the runner really applies them
    let e2e_tier = if a.thorough { crate::families::Tier::Thorough } else { crate::families::Tier::Quick };
    let e2e = crate::families::fam_resolve(e2e_tier);
    let mut stats = crate::exec::ExploreStats::default();
    for (i, cfg) in e2e.iter().enumerate() {
        if !a.mine(i) {
            continue;
        }
        let mut found = false;
        crate::exec::explore(cfg, &crate::exec::stream_subject, cfg.max_execs, &mut stats, &mut |tr| {
            for v in crate::oracles::check_all(cfg, tr) {
                let relevant = matches!(
                    v.key.as_str(),
                    "retries-field" | "delay" | "over-budget" | "spurious-retry" | "missing-retry"
                        | "over-limit" | "not-work-conserving" | "dispatch-after-failure"
                        | "cut-without-final-failure" | "user-code-over-limit" | "ingest-after-error"
                        | "not-attempted"
                );
                if relevant && !found && violations.len() < 30 {
                    found = true;
                    violations.push(json!({
                        "engine": "hist", "property": "C18", "tier": a.tier, "key": format!("e2e-{}", v.key),
                        "e2e_index": i, "schedule": tr.schedule(),
                        "message": format!("end to end ({}): [{}] {}", cfg.name, v.prop, v.msg),
                    }));
                }
            }
            !found
        });
    }
    // the CLI values given through `Cucumber::with_cli()` still apply after every Cucumber-level
    // builder method that rebuilds the value (child processes with a clean argv, see order.rs)
    if a.mine(1) {
        for (p, key, msg) in crate::order::run_children() {
            if violations.len() < 40 {
                violations.push(json!({
                    "engine": "hist", "property": "C18", "tier": a.tier, "key": format!("order-{key}"),
                    "extra": "cucumber-order",
                    "message": format!("CLI options lost by a builder method: [{p}] {msg}"),
                }));
            }
        }
        evaluations += crate::order::METHODS.len();
    }
    evaluations += stats.execs;
    nontrivial += stats.execs;
    json!({
        "property": "C18", "tier": a.tier,
        "total_configs": cs.len() + e2e.len(), "configs_done": evaluations, "configs_skipped_budget": 0,
        "evaluations": evaluations, "distinct_nontrivial": nontrivial,
        "rule": "complete product: retry tag in {none,@retry,@retry(3),@retry.after(2s),@retry(3).after(2s),@retry(10),@retry(0).after(0s),@retryable (an ordinary tag)}, optionally with the look-alike tag written before the genuine one, on scenario x rule x feature (with and without a rule) x --retry {none,5,0} x --retry-after {none,7s} x --retry-tag-filter {none,@x,not @x,@x and @y} x placement of x (none/scenario/rule/feature) and y; plus, end to end under the gate executor, 1500 (thorough: 30 000, with the tags inherited from the feature of a scenario in a rule, all filter x hook combinations) configurations with differing builder / CLI retries, delays, filters, limits and fail-fast flags (family `resolve`): budget on the first event, delay, limit and fail-fast behaviour must be what the precedence resolves to; non-trivial = at least two sources compete",
        "exhaustive": true,
        "violations": violations, "samples": samples,
    })
}

pub fn replay(j: &serde_json::Value) -> i32 {
    if j["extra"].as_str() == Some("cucumber-order") {
        let vs = crate::order::run_children();
        for (p, k, m) in &vs {
            println!("violation C18 (as {p}) [{k}]: {m}");
        }
        return i32::from(!vs.is_empty());
    }
    if let Some(i) = j["e2e_index"].as_u64() {
        let e2e = crate::families::fam_resolve(if j["tier"].as_str() == Some("thorough") {
            crate::families::Tier::Thorough
        } else {
            crate::families::Tier::Quick
        });
        let cfg = &e2e[i as usize];
        let sched: Vec<usize> =
            j["schedule"].as_array().unwrap().iter().map(|x| x.as_u64().unwrap() as usize).collect();
        println!("{}", cfg.describe());
        let tr = crate::exec::execute(cfg, &crate::exec::stream_subject, &sched);
        for l in tr.render() {
            println!("  {l}");
        }
        let vs = crate::oracles::check_all(cfg, &tr);
        for v in &vs {
            println!("violation {} [{}]: {}", v.prop, v.key, v.msg);
        }
        return i32::from(!vs.is_empty());
    }
    let cs = cases();
    let c = &cs[j["case_index"].as_u64().unwrap() as usize];
    println!("{c:?}");
    match check(c) {
        Some(m) => {
            println!("violation C18: {m}");
            1
        }
        None => {
            println!("holds");
            0
        }
    }
}
