//! Engine B toolkit: recording writer, real event construction.

use std::collections::HashMap;

use cucumber::{
    cli,
    event::{self, Cucumber, Retries, Scenario, Source, StepError},
    parser, writer, Event, Writer,
};
use futures::FutureExt as _;

use crate::{
    canon::{self, Ev, HookEv, HookKind, ScEv, StepEv},
    hs::TW,
    spec::{Config, RawItem},
};

thread_local! {
    /// Realized `Failed` events carry a World (C14 "rich" decoration).
    pub static WITH_WORLD: std::cell::Cell<bool> = const { std::cell::Cell::new(false) };
}

fn world() -> Option<std::sync::Arc<TW>> {
    WITH_WORLD.with(std::cell::Cell::get).then(|| {
        std::sync::Arc::new(TW { id: 7, counter: 3, stamp: Some("stamp \"q\" <m>".into()) })
    })
}

/// What the recording writer saw, in order.
#[derive(Clone, Debug, PartialEq, Eq)]
pub enum Seen {
    Event(Ev),
    Write(String),
}

/// Recording inner writer: the observation point behind every wrapper.
#[derive(Clone, Debug, Default)]
pub struct Rec {
    pub seen: Vec<Seen>,
    /// settable statistics (passed, skipped, failed, retried, parsing, hooks)
    pub counters: [usize; 6],
}

impl Rec {
    pub fn events(&self) -> Vec<Ev> {
        self.seen
            .iter()
            .filter_map(|s| if let Seen::Event(e) = s { Some(e.clone()) } else { None })
            .collect()
    }
    pub fn writes(&self) -> Vec<(usize, String)> {
        self.seen
            .iter()
            .enumerate()
            .filter_map(|(i, s)| if let Seen::Write(w) = s { Some((i, w.clone())) } else { None })
            .collect()
    }
    pub fn with_counters(c: [usize; 6]) -> Self {
        Rec { seen: vec![], counters: c }
    }
}

impl Writer<TW> for Rec {
    type Cli = cli::Empty;
    async fn handle_event(&mut self, ev: RawItem, _cli: &cli::Empty) {
        self.seen.push(Seen::Event(canon::canon(&ev)));
    }
}

impl writer::Arbitrary<TW, String> for Rec {
    async fn write(&mut self, val: String) {
        self.seen.push(Seen::Write(val));
    }
}

impl writer::Stats<TW> for Rec {
    fn passed_steps(&self) -> usize {
        self.counters[0]
    }
    fn skipped_steps(&self) -> usize {
        self.counters[1]
    }
    fn failed_steps(&self) -> usize {
        self.counters[2]
    }
    fn retried_steps(&self) -> usize {
        self.counters[3]
    }
    fn parsing_errors(&self) -> usize {
        self.counters[4]
    }
    fn hook_errors(&self) -> usize {
        self.counters[5]
    }
}

impl writer::NonTransforming for Rec {}
impl writer::Normalized for Rec {}

/// Drives a writer's `handle_event` to completion (built-in writers never suspend).
///
/// The writer receives a *clone* of the item and the original is dropped, which is what the
/// left arm of a `Tee` (and everything replayed by a `Repeat`) gets: the hand-written `Clone`
/// impls of the event types are on every path.
pub fn feed<Wr: Writer<TW>>(w: &mut Wr, ev: RawItem, cli: &Wr::Cli) {
    feed_ref(w, &ev, cli);
}

/// Feeds one clone of `ev` (exactly one `Clone::clone` between the item and the writer).
pub fn feed_ref<Wr: Writer<TW>>(w: &mut Wr, ev: &RawItem, cli: &Wr::Cli) {
    w.handle_event(ev.clone(), cli).now_or_never().expect("writer suspended in handle_event");
}

// ----------------------------------------------------------- real event values

/// The `Source`s of a set of parsed features, addressable by name.
pub struct Sources {
    pub feats: HashMap<String, Source<gherkin::Feature>>,
    pub rules: HashMap<String, Source<gherkin::Rule>>,
    pub scens: HashMap<String, Source<gherkin::Scenario>>,
    /// step text -> step
    pub steps: HashMap<String, Source<gherkin::Step>>,
}

impl Sources {
    pub fn from_features(feats: Vec<gherkin::Feature>) -> Self {
        let mut s = Sources {
            feats: HashMap::new(),
            rules: HashMap::new(),
            scens: HashMap::new(),
            steps: HashMap::new(),
        };
        for f in feats {
            let add_steps = |steps: &[gherkin::Step], m: &mut HashMap<String, Source<gherkin::Step>>| {
                for st in steps {
                    m.insert(st.value.clone(), Source::new(st.clone()));
                }
            };
            if let Some(bg) = &f.background {
                add_steps(&bg.steps, &mut s.steps);
            }
            for sc in &f.scenarios {
                add_steps(&sc.steps, &mut s.steps);
                s.scens.insert(sc.name.clone(), Source::new(sc.clone()));
            }
            for r in &f.rules {
                if let Some(bg) = &r.background {
                    add_steps(&bg.steps, &mut s.steps);
                }
                for sc in &r.scenarios {
                    add_steps(&sc.steps, &mut s.steps);
                    s.scens.insert(sc.name.clone(), Source::new(sc.clone()));
                }
                s.rules.insert(r.name.clone(), Source::new(r.clone()));
            }
            s.feats.insert(f.name.clone(), Source::new(f));
        }
        s
    }

    pub fn from_config(cfg: &Config) -> Self {
        Self::from_features(cfg.feats.iter().enumerate().map(|(i, f)| f.parse(i)).collect())
    }

    /// Capture locations as a matched definition yields them (see the pattern).
    fn caps(text: &str) -> regex::CaptureLocations {
        thread_local! {
            // gaps before the first group and between the groups, a nested group that ends
            // before its parent, an unmatched tail
            static RE: regex::Regex = regex::Regex::new(r"^\S+ ((\S)\S*) (\S+)").unwrap();
        }
        RE.with(|re| {
            let mut locs = re.capture_locations();
            let _ = re.captures_read(&mut locs, text);
            locs
        })
    }

    fn step_event(ev: &StepEv, text: &str) -> event::Step<TW> {
        match ev {
            StepEv::Started => event::Step::Started,
            StepEv::Passed => event::Step::Passed(Self::caps(text), None),
            StepEv::Skipped => event::Step::Skipped,
            StepEv::Failed(kind, _) => {
                let err = if kind == "NotFound" {
                    StepError::NotFound
                } else if kind.starts_with("Ambiguous") {
                    StepError::AmbiguousMatch(cucumber::step::AmbiguousMatchError {
                        possible_matches: vec![],
                    })
                } else {
                    StepError::Panic(std::sync::Arc::new(kind.clone()))
                };
                let caps = matches!(err, StepError::Panic(_)).then(|| Self::caps(text));
                event::Step::Failed(caps, None, world(), err)
            }
        }
    }

    /// Builds the real event for a canonical scenario event.
    pub fn scenario_event(
        &self,
        f: &str,
        r: Option<&str>,
        s: &str,
        retries: Option<(usize, usize)>,
        ev: &ScEv,
    ) -> Cucumber<TW> {
        let sc: Scenario<TW> = match ev {
            ScEv::Started => Scenario::Started,
            ScEv::Finished => Scenario::Finished,
            ScEv::Log(l) => Scenario::Log(l.clone()),
            ScEv::Hook(k, h) => {
                let ty = match k {
                    HookKind::Before => event::HookType::Before,
                    HookKind::After => event::HookType::After,
                };
                match h {
                    HookEv::Started => Scenario::hook_started(ty),
                    HookEv::Passed => Scenario::hook_passed(ty),
                    HookEv::Failed(p, _) => {
                        Scenario::hook_failed(ty, world(), std::sync::Arc::new(p.clone()))
                    }
                }
            }
            ScEv::Step(bg, text, _, e) => {
                let st = self.steps.get(text).unwrap_or_else(|| panic!("no step {text}")).clone();
                let ev = Self::step_event(e, &st.value);
                if *bg {
                    Scenario::Background(st, ev)
                } else {
                    Scenario::Step(st, ev)
                }
            }
        };
        let re = sc.with_retries(retries.map(|(current, left)| Retries { current, left }));
        Cucumber::scenario(
            self.feats[f].clone(),
            r.map(|r| self.rules[r].clone()),
            self.scens[s].clone(),
            re,
        )
    }

    /// Builds the real item for a canonical event.
    pub fn realize(&self, ev: &Ev) -> RawItem {
        let c = match ev {
            Ev::ParseErr(tag) => return Err(crate::spec::parser_error(tag)),
            Ev::Started => Cucumber::Started,
            Ev::Finished => Cucumber::Finished,
            Ev::ParsingFinished { features, rules, scenarios, steps, parser_errors } => {
                Cucumber::ParsingFinished {
                    features: *features,
                    rules: *rules,
                    scenarios: *scenarios,
                    steps: *steps,
                    parser_errors: *parser_errors,
                }
            }
            Ev::FeatStarted(f) => Cucumber::feature_started(self.feats[f].clone()),
            Ev::FeatFinished(f) => Cucumber::feature_finished(self.feats[f].clone()),
            Ev::RuleStarted(f, r) => Cucumber::rule_started(self.feats[f].clone(), self.rules[r].clone()),
            Ev::RuleFinished(f, r) => {
                Cucumber::rule_finished(self.feats[f].clone(), self.rules[r].clone())
            }
            Ev::Sc { f, r, s, retries, ev, .. } => {
                self.scenario_event(f, r.as_deref(), s, *retries, ev)
            }
        };
        // a synthetic, early timestamp: metadata travels with the event, so whatever reaches
        // an inner writer must still carry it (a fresh `SystemTime::now()` is decades later)
        let mut ev = Event::new(c);
        ev.at = std::time::UNIX_EPOCH + std::time::Duration::from_secs(1_000);
        Ok(ev)
    }
}

/// Canonical event with pointer identities and step lines erased and parse
/// errors reduced to their tag, so that an input description (`Ev` built by
/// hand) compares equal to what `canon()` renders for the realized item.
pub fn erase(ev: &Ev) -> Ev {
    match ev {
        Ev::Sc { f, r, s, retries, ev, .. } => Ev::Sc {
            f: f.clone(),
            r: r.clone(),
            s: s.clone(),
            ptrs: (0, 0, 0),
            retries: *retries,
            ev: match ev {
                ScEv::Step(bg, t, _, e) => ScEv::Step(*bg, t.clone(), 0, match e {
                    StepEv::Failed(k, _) => StepEv::Failed(erase_kind(k), None),
                    o => o.clone(),
                }),
                ScEv::Hook(k, HookEv::Failed(p, _)) => {
                    ScEv::Hook(*k, HookEv::Failed(erase_kind(p), None))
                }
                o => o.clone(),
            },
        },
        Ev::ParseErr(t) => Ev::ParseErr(
            t.strip_prefix("Expansion(").and_then(|x| x.strip_suffix(')')).unwrap_or(t).to_owned(),
        ),
        o => o.clone(),
    }
}

fn erase_kind(k: &str) -> String {
    // realized payloads are `String`s: "String:<kind>" / "Panic(String:<kind>)"
    let k = k.strip_prefix("Panic(").and_then(|x| x.strip_suffix(')')).unwrap_or(k);
    let k = k.strip_prefix("String:").unwrap_or(k);
    if k.starts_with("Ambiguous") {
        "Ambiguous".into()
    } else {
        k.to_owned()
    }
}

pub fn sc(f: &str, r: Option<&str>, s: &str, retries: Option<(usize, usize)>, ev: ScEv) -> Ev {
    Ev::Sc {
        f: f.to_owned(),
        r: r.map(str::to_owned),
        s: s.to_owned(),
        ptrs: (0, 0, 0),
        retries,
        ev,
    }
}

pub fn _keep(_: parser::Error) {}
