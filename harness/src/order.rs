//! Options given to `Cucumber::with_cli()` must survive the builder methods applied
//! afterwards (`before`, `after`, `which_scenario`): the CLI concurrency limit, retry
//! count and fail-fast flag as the runner finally applies them, observed under the gate
//! executor with the oracles of Engine A.
//!
//! Runs in a child process with a clean argv: a `Cucumber` that lost its options falls
//! back to parsing the process arguments (and `clap` would exit the process on ours).

use cucumber::{cli, writer, Cucumber, Writer};
use futures::FutureExt as _;

use crate::{
    canon,
    exec::{self, SubjPoll, Subject},
    families::Tier,
    hs::{self, GateMode, Outcome, TW},
    oracles,
    pipe::HParser,
    spec::{self, Config, FeatSpec, Item, RawItem, ScenSpec, StepKind},
};

pub const METHODS: [&str; 4] = ["none", "before", "after", "which_scenario"];

struct SpyW;

impl Writer<TW> for SpyW {
    type Cli = cli::Empty;
    async fn handle_event(&mut self, ev: RawItem, _: &cli::Empty) {
        exec::record_event(canon::canon(&ev));
        exec::keep_alive(&ev);
    }
}
impl writer::Normalized for SpyW {}

struct FutSubject(futures::future::LocalBoxFuture<'static, ()>);

impl Subject for FutSubject {
    fn poll(&mut self, cx: &mut std::task::Context<'_>) -> SubjPoll {
        match self.0.poll_unpin(cx) {
            std::task::Poll::Ready(()) => SubjPoll::Done,
            std::task::Poll::Pending => SubjPoll::Pending,
        }
    }
}

fn config(m: usize) -> Config {
    let sc = |tags: &[&str]| ScenSpec {
        tags: tags.iter().map(|t| (*t).to_owned()).collect(),
        steps: vec![StepKind::Matched],
    };
    let mut cfg = Config {
        name: format!("cucumber-order/{}", METHODS[m]),
        feats: vec![FeatSpec { scenarios: vec![sc(&[]), sc(&[]), sc(&[])], ..Default::default() }],
        items: vec![Item::Feat(0)],
        // builder says 3, the CLI says 1 and one retry: the CLI must win
        conc_builder: Some(Some(3)),
        conc_cli: Some(1),
        retries_cli: Some(1),
        before: METHODS[m] == "before",
        after: METHODS[m] == "after",
        custom_which: METHODS[m] == "which_scenario",
        bound: Some(1),
        max_execs: 200,
        ..Config::default()
    };
    cfg.plan.gates = GateMode::Steps;
    let key = cfg.scen_infos()[0].calls[0].key.clone();
    cfg.plan.outcomes.insert(key, vec![Outcome::PanicString, Outcome::Pass]);
    cfg
}

fn subject(cfg: &Config, m: usize) -> Box<dyn Subject> {
    let opts = cli::Opts {
        re_filter: None,
        tags_filter: None,
        parser: cli::Empty,
        runner: spec::runner_cli(cfg),
        writer: cli::Empty,
        custom: cli::Empty,
    };
    let runner = cucumber::runner::Basic::<TW>::default()
        .max_concurrent_scenarios(Some(3))
        .steps(spec::collection());
    let c = Cucumber::<TW, HParser, (), _, SpyW, cli::Empty>::custom(HParser(cfg.clone()), runner, SpyW)
        .with_cli(opts);
    let fut = match METHODS[m] {
        "before" => async move { drop(c.before(hs::before_hook).run(()).await) }.boxed_local(),
        "after" => async move { drop(c.after(hs::after_hook).run(()).await) }.boxed_local(),
        "which_scenario" => {
            async move { drop(c.which_scenario(spec::custom_which_fn()).run(()).await) }.boxed_local()
        }
        _ => async move { drop(c.run(()).await) }.boxed_local(),
    };
    Box::new(FutSubject(fut))
}

/// All violations (any property) of one method's configuration.
pub fn case(m: usize) -> Vec<(String, String, String)> {
    let cfg = config(m);
    let mut stats = exec::ExploreStats::default();
    let mut out: Vec<(String, String, String)> = Vec::new();
    exec::explore(&cfg, &|c: &Config| subject(c, m), cfg.max_execs, &mut stats, &mut |tr| {
        for v in oracles::check_all(&cfg, tr) {
            if !out.iter().any(|(p, k, _)| *p == v.prop && *k == v.key) {
                out.push((
                    v.prop.to_owned(),
                    v.key.clone(),
                    format!(
                        "Cucumber::with_cli(--concurrency 1 --retry 1) followed by .{}(..), builder limit 3: {}",
                        METHODS[m], v.msg
                    ),
                ));
            }
        }
        out.is_empty()
    });
    let _ = Tier::Quick;
    out
}

/// Child entry point (`VERIF_ORDER_CHILD=<m>`): one line per violation.
pub fn child(spec: &str) -> i32 {
    let m: usize = spec.parse().expect("method index");
    for (p, k, msg) in case(m) {
        println!("ORDER-BAD\t{p}\t{k}\t{}", msg.replace('\n', " "));
    }
    println!("ORDER-DONE");
    0
}

/// Runs every method in a child process; returns (property, key, message) triples.
pub fn run_children() -> Vec<(String, String, String)> {
    let exe = std::env::current_exe().expect("exe");
    let mut out = Vec::new();
    for m in 0..METHODS.len() {
        let res = std::process::Command::new(&exe).env("VERIF_ORDER_CHILD", m.to_string()).output();
        match res {
            Ok(o) => {
                let so = String::from_utf8_lossy(&o.stdout).into_owned();
                for l in so.lines().filter(|l| l.starts_with("ORDER-BAD\t")) {
                    let f: Vec<&str> = l.splitn(4, '\t').collect();
                    out.push((f[1].to_owned(), f[2].to_owned(), f[3].to_owned()));
                }
                if !so.contains("ORDER-DONE") {
                    // the Cucumber lost its options and tripped over the process arguments, or crashed
                    let msg = format!(
                        "Cucumber::with_cli(..) followed by .{}(..): the run did not use the given options (child exited with {:?}: {})",
                        METHODS[m],
                        o.status.code(),
                        String::from_utf8_lossy(&o.stderr).lines().next().unwrap_or("")
                    );
                    for p in ["C05", "C06"] {
                        out.push((p.to_owned(), "options-lost-by-builder".to_owned(), msg.clone()));
                    }
                }
            }
            Err(e) => out.push(("C06".into(), "child".into(), format!("cannot spawn the child process: {e}"))),
        }
    }
    out
}
