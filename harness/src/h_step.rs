//! C17: `step::Collection::find` — keyword scoping, exact ambiguity, capture
//! groups, independence from registration and hash-iteration order (hook H2).

use std::cell::Cell;

use cucumber::step::{Collection, Context, Location};
use futures::{future::LocalBoxFuture, FutureExt as _};
use gherkin::StepType;
use regex::Regex;
use serde_json::json;

use crate::{hist::ShardArgs, hs::TW};

pub const POOL: [&str; 13] = [
    r"^a (\d+)$",
    r"^a (.*)$",
    r"^(a|b) (\d+)?$",
    r"^(?P<name>\w+) is (?P<val>\d+)$",
    r"^((x)(y)?)z$",
    r"é(.)ü",
    r"^a \d+$",
    r"b",
    r"^$",
    r"(\d+) (é|apples?)",
    // more than nine groups, one of them named and optional
    r"^(1)(2)(3)(4)(5)(6)(7)(8)(9)(a)(?P<k>b)?(c)$",
    // a top-level alternation: `^` binds to the first branch, `$` to the last
    r"^x1|y2$",
    // compiled with `RegexBuilder::case_insensitive(true)` (see `compile`): options are not
    // part of the pattern text
    r"^hello (w+)$",
];

/// Compiles pool entry `i` the way a user would (the last one through `RegexBuilder`).
pub fn compile(i: usize) -> Regex {
    if i == POOL.len() - 1 {
        regex::RegexBuilder::new(POOL[i]).case_insensitive(true).build().unwrap()
    } else {
        Regex::new(POOL[i]).unwrap()
    }
}
pub const TEXTS: [&str; 20] = [
    "a 1", "a x", "b 2", "b ", "foo is 42", "xyz", "xz", "éßü", "", "zzz", "a 12",
    // unanchored matches that start at an offset > 0 (after ASCII and after multi-byte text)
    "I have 12 apples", "ßß 7 é", "a 3 apple pie", "123456789ac", "123456789abc", "HELLO WWW", "hello ww", "x1 and more", "it ends in y2",
];

thread_local! {
    static CALLED: Cell<usize> = const { Cell::new(usize::MAX) };
}

fn marker<const N: usize>(_: &mut TW, _: Context) -> LocalBoxFuture<'_, ()> {
    async move {
        CALLED.with(|c| c.set(N));
    }
    .boxed_local()
}

macro_rules! fns {
    ($($n:literal),*) => { [$(marker::<$n> as cucumber::Step<TW>),*] };
}

pub fn step_fns() -> [cucumber::Step<TW>; 56] {
    fns!(
        0, 1, 2, 3, 4, 5, 6, 7, 8, 9, 10, 11, 12, 13, 14, 15, 16, 17, 18, 19, 20, 21, 22, 23, 24, 25,
        26, 27, 28, 29, 30, 31, 32, 33, 34, 35, 36, 37, 38, 39, 40, 41, 42, 43, 44, 45, 46, 47, 48, 49, 50, 51, 52, 53, 54, 55
    )
}

const L1: Location = Location { path: "steps.rs", line: 10, column: 1 };
const L2: Location = Location { path: "steps.rs", line: 20, column: 1 };

#[derive(Clone, Copy, Debug, PartialEq, Eq, PartialOrd, Ord)]
pub struct Def {
    pub kw: u8, // 0 Given, 1 When, 2 Then
    pub re: usize,
    pub loc: u8, // 0 None, 1 L1, 2 L2
}

impl Def {
    /// Distinct `fn` item per definition.
    pub fn fn_index(self) -> usize {
        // candidates: kw in {0,1}, re in 0..10, loc in {0,1} -> 40; loc 2 only with kw 0, re 0..4
        if self.loc == 2 {
            40 + self.re
        } else {
            (self.kw as usize) * 20 + self.re * 2 + self.loc as usize
        }
    }
    pub fn location(self) -> Option<Location> {
        match self.loc {
            0 => None,
            1 => Some(L1),
            _ => Some(L2),
        }
    }
}

pub fn candidates() -> Vec<Def> {
    let mut v = Vec::new();
    for kw in 0..2u8 {
        for re in 0..POOL.len() {
            for loc in 0..2u8 {
                v.push(Def { kw, re, loc });
            }
        }
    }
    for re in 0..4 {
        v.push(Def { kw: 0, re, loc: 2 });
    }
    v
}

/// Definition sets of size <= `max` (as sorted index lists into `candidates()`).
pub fn def_sets(ncand: usize, max: usize) -> Vec<Vec<usize>> {
    let mut out: Vec<Vec<usize>> = Vec::new();
    let mut cur: Vec<Vec<usize>> = vec![vec![]];
    for _ in 0..max {
        let mut next = Vec::new();
        for p in &cur {
            let start = p.last().map_or(0, |l| l + 1);
            for c in start..ncand {
                let mut q = p.clone();
                q.push(c);
                next.push(q);
            }
        }
        out.extend(next.iter().cloned());
        cur = next;
    }
    out
}

fn permutations(n: usize) -> Vec<Vec<usize>> {
    if n == 0 {
        return vec![vec![]];
    }
    let mut out = Vec::new();
    for p in permutations(n - 1) {
        for i in 0..n {
            let mut q = p.clone();
            q.insert(i, n - 1);
            out.push(q);
        }
    }
    out
}

fn build(defs: &[Def], fns: &[cucumber::Step<TW>; 56], res: &[Regex]) -> Collection<TW> {
    let mut c = Collection::new();
    for d in defs {
        let (re, f) = (res[d.re].clone(), fns[d.fn_index()]);
        c = match d.kw {
            0 => c.given(d.location(), re, f),
            1 => c.when(d.location(), re, f),
            _ => c.then(d.location(), re, f),
        };
    }
    c
}

fn step(ty: u8, text: &str) -> gherkin::Step {
    gherkin::Step {
        keyword: ["Given ", "When ", "Then "][ty as usize].to_owned(),
        ty: [StepType::Given, StepType::When, StepType::Then][ty as usize],
        value: text.to_owned(),
        docstring: None,
        table: None,
        span: gherkin::Span { start: 0, end: 0 },
        position: gherkin::LineCol { line: 1, col: 1 },
    }
}

/// Reference: whole match + every group with its name, "" if not participating.
fn ref_matches(re: &Regex, text: &str) -> Vec<(Option<String>, String)> {
    let caps = re.captures(text).expect("reference says it matches");
    re.capture_names()
        .enumerate()
        .map(|(i, n)| (n.map(str::to_owned), caps.get(i).map_or(String::new(), |m| m.as_str().to_owned())))
        .collect()
}

/// Checks one definition set on every registration order, hash-iteration
/// permutation, step type and text. Returns (evaluations, ambiguous cases, violation).
pub fn check_set(
    defs: &[Def],
    fns: &[cucumber::Step<TW>; 56],
    res: &[Regex],
    types: &[u8],
) -> (usize, usize, Option<String>) {
    let orders = permutations(defs.len());
    let mut evals = 0;
    let mut ambiguous = 0;
    // every registration order, as built and as a clone of it (a `runner::Basic` or a
    // `Collection` may be cloned by the user before it is run)
    let collections: Vec<Collection<TW>> = orders
        .iter()
        .flat_map(|o| {
            let c = build(&o.iter().map(|i| defs[*i]).collect::<Vec<_>>(), fns, res);
            [c.clone(), c]
        })
        .collect();
    for ty in types {
        for text in TEXTS {
            let st = step(*ty, text);
            let cands: Vec<Def> =
                defs.iter().copied().filter(|d| d.kw == *ty && res[d.re].is_match(text)).collect();
            let mut first_list: Option<Vec<(String, Option<Location>)>> = None;
            for (oi, coll) in collections.iter().enumerate() {
                let perms = if cands.len() >= 2 { permutations(cands.len()) } else { vec![vec![]] };
                for perm in perms {
                    if cands.len() >= 2 {
                        let p = perm.clone();
                        cucumber::verif::set_permute(Some(Box::new(move |n| {
                            assert_eq!(n, p.len(), "candidate count differs from the reference");
                            p.clone()
                        })));
                    } else {
                        cucumber::verif::set_permute(None);
                    }
                    let got = std::panic::catch_unwind(std::panic::AssertUnwindSafe(|| coll.find(&st)));
                    cucumber::verif::set_permute(None);
                    evals += 1;
                    let ctx = format!("defs {defs:?} order #{oi} perm {perm:?} type {ty} text {text:?}");
                    let got = match got {
                        Ok(g) => g,
                        Err(_) => return (evals, ambiguous, Some(format!("{ctx}: find() panicked (candidate count mismatch?)"))),
                    };
                    match (cands.len(), got) {
                        (0, Ok(None)) => {}
                        (1, Ok(Some((f, _caps, loc, c)))) => {
                            let d = cands[0];
                            CALLED.with(|c| c.set(usize::MAX));
                            let mut w = TW { id: 0, counter: 0, stamp: None };
                            f(&mut w, c.clone()).now_or_never();
                            let called = CALLED.with(Cell::get);
                            if called != d.fn_index() {
                                return (evals, ambiguous, Some(format!("{ctx}: chose fn #{called}, expected #{} of {d:?}", d.fn_index())));
                            }
                            if loc != d.location() {
                                return (evals, ambiguous, Some(format!("{ctx}: location {loc:?}, expected {:?}", d.location())));
                            }
                            let want = ref_matches(&res[d.re], text);
                            if c.matches != want {
                                return (evals, ambiguous, Some(format!("{ctx}: matches {:?}, expected {want:?}", c.matches)));
                            }
                            if c.step.value != text {
                                return (evals, ambiguous, Some(format!("{ctx}: context carries another step")));
                            }
                        }
                        (n, Err(e)) if n >= 2 => {
                            ambiguous += 1;
                            let list: Vec<(String, Option<Location>)> =
                                e.possible_matches.iter().map(|(r, l)| (r.as_str().to_owned(), *l)).collect();
                            let mut got_set = list.clone();
                            got_set.sort();
                            let mut want_set: Vec<(String, Option<Location>)> =
                                cands.iter().map(|d| (POOL[d.re].to_owned(), d.location())).collect();
                            want_set.sort();
                            if got_set != want_set {
                                return (evals, ambiguous, Some(format!("{ctx}: ambiguity lists {list:?}, candidates are {want_set:?}")));
                            }
                            match &first_list {
                                None => first_list = Some(list),
                                Some(f) if *f != list => {
                                    return (evals, ambiguous, Some(format!("{ctx}: ambiguity list order {list:?} differs from {f:?} seen for another order")));
                                }
                                _ => {}
                            }
                        }
                        (n, got) => {
                            let g = match got {
                                Ok(None) => "not found".to_owned(),
                                Ok(Some((_, _, loc, _))) => format!("a single match at {loc:?}"),
                                Err(e) => format!("ambiguity of {}", e.possible_matches.len()),
                            };
                            return (evals, ambiguous, Some(format!("{ctx}: {n} definitions of that keyword match, find() returned {g}")));
                        }
                    }
                }
            }
        }
    }
    (evals, ambiguous, None)
}

pub fn run(a: &ShardArgs) -> serde_json::Value {
    let fns = step_fns();
    let res: Vec<Regex> = (0..POOL.len()).map(compile).collect();
    let cands = candidates();
    let sets = def_sets(cands.len(), if a.thorough { 4 } else { 3 });
    let types: &[u8] = &[0, 1, 2];
    let mut evaluations = 0usize;
    let mut ambiguous = 0usize;
    let mut violations = Vec::new();
    let mut samples = Vec::new();
    let mut skipped = 0usize;
    let mut done = 0usize;
    for (i, set) in sets.iter().enumerate() {
        if !a.mine(i) {
            continue;
        }
        if i % 256 == 0 && a.out_of_time() {
            skipped += 1;
        }
        if skipped > 0 {
            skipped += 1;
            continue;
        }
        let defs: Vec<Def> = set.iter().map(|c| cands[*c]).collect();
        // same (keyword, regex, location) twice is one definition: sets are duplicate-free by construction
        let (n, amb, bad) = check_set(&defs, &fns, &res, types);
        evaluations += n;
        ambiguous += amb;
        done += 1;
        if let Some(msg) = bad {
            if violations.len() < 30 {
                violations.push(json!({
                    "engine": "hist", "property": "C17", "tier": a.tier, "key": "find",
                    "set_index": i, "message": msg,
                }));
            }
        }
        if samples.len() < 3 && amb > 0 && defs.len() == 3 {
            samples.push(json!({"definitions": defs.iter().map(|d| format!("{:?} /{}/ loc{}", ["Given","When","Then"][d.kw as usize], POOL[d.re], d.loc)).collect::<Vec<_>>(), "ambiguous_lookups": amb}));
        }
    }
    // the same through the runner's own registration methods (clones of runners included)
    if a.mine(2) {
        for (key, msg) in crate::zoo::c17_runner_registration() {
            violations.push(json!({
                "engine": "hist", "property": "C17", "tier": a.tier, "key": key,
                "extra": "runner-registration", "message": msg,
            }));
        }
        evaluations += 4;
    }
    json!({
        "property": "C17", "tier": a.tier,
        "total_configs": sets.len(), "configs_done": done, "configs_skipped_budget": skipped,
        "evaluations": evaluations, "distinct_nontrivial": ambiguous,
        "rule": format!("definition sets of size <= {} from {} (keyword, regex, location) candidates (10 regexes: nested, optional, named, alternation, multi-byte, unanchored with a group), every registration order, every permutation of the candidate iteration order (hook H2), 3 step types x {} texts; non-trivial = lookups that are ambiguous", if a.thorough {4} else {3}, cands.len(), TEXTS.len()),
        "exhaustive": skipped == 0,
        "violations": violations, "samples": samples,
    })
}

pub fn replay(j: &serde_json::Value) -> i32 {
    if j["extra"].as_str() == Some("runner-registration") {
        let vs = crate::zoo::c17_runner_registration();
        for (k, m) in &vs {
            println!("violation C17 [{k}]: {m}");
        }
        return i32::from(!vs.is_empty());
    }
    let thorough = j["tier"].as_str() == Some("thorough");
    let fns = step_fns();
    let res: Vec<Regex> = (0..POOL.len()).map(compile).collect();
    let cands = candidates();
    let sets = def_sets(cands.len(), if thorough { 4 } else { 3 });
    let set = &sets[j["set_index"].as_u64().unwrap() as usize];
    let defs: Vec<Def> = set.iter().map(|c| cands[*c]).collect();
    println!("{defs:?}");
    match check_set(&defs, &fns, &res, &[0, 1, 2]).2 {
        Some(m) => {
            println!("violation C17: {m}");
            1
        }
        None => {
            println!("holds");
            0
        }
    }
}
